#!/usr/bin/env python3
"""Runs the Kani harnesses of the given tier and writes /verif/.build/kani_results.json.
   verdicts: verified | failed | not_decided (timeout, out of memory, unwinding assertion, tool error)
   A failed harness is re-run with concrete playback; the decoded operands are replayed natively
   through `pverif kernel-replay` and only then counted as failed+confirmed."""
import json, os, re, subprocess, sys, time, shutil, glob
HERE = os.path.dirname(os.path.abspath(__file__))
ROOT = os.path.dirname(HERE)
tier = sys.argv[1] if len(sys.argv) > 1 else "quick"
out_path = os.path.join(ROOT, ".build", "kani_results.json")
tgt = os.path.join(ROOT, ".build", "kani")
os.makedirs(os.path.dirname(out_path), exist_ok=True)
if os.path.exists(out_path):
    os.remove(out_path)  # never let a failed run be judged by stale results
env = dict(os.environ, CARGO_NET_OFFLINE="true")
env.pop("RUSTFLAGS", None)
env.pop("CARGO_TARGET_DIR", None)
shutil.copy(os.path.join(os.environ.get("PVERIF_REPO", "/repo"), "Cargo.lock"), os.path.join(HERE, "Cargo.lock"))
subprocess.run([sys.executable, os.path.join(HERE, "gen.py")], check=True, stdout=subprocess.DEVNULL)
H = json.load(open(os.path.join(HERE, "harnesses.json")))
sel = [h for h in H if tier == "thorough" or h["tier"] == "quick"]
only = os.environ.get("PVERIF_KANI_ONLY")
if only:
    sel = [h for h in H if re.search(only, h["name"])]
cap = 150 if tier == "quick" else 900
jobs = 12 if tier == "quick" else 6
resdir = os.path.join(ROOT, ".build", "kani_out")
shutil.rmtree(resdir, ignore_errors=True)
os.makedirs(resdir, exist_ok=True)
t0 = time.time()
cmd = ["cargo", "kani", "--target-dir", tgt, "-j", str(jobs), "--output-format", "terse", "--output-into-files", "-Z", "unstable-options", "--harness-timeout", f"{cap}s", "--exact"]
for h in sel:
    cmd += ["--harness", "proofs::" + h["name"]]
p = subprocess.run(cmd, cwd=HERE, env=env, capture_output=True, text=True)
log = p.stdout + p.stderr
open(os.path.join(ROOT, ".build", "kani_run.log"), "w").write(log)
# per-harness files are written below the target dir; find them
files = {}
for f in glob.glob(os.path.join(tgt, "**", "*"), recursive=True):
    if os.path.isfile(f) and "k_" in os.path.basename(f) and os.path.getmtime(f) >= t0 - 1:
        files[os.path.basename(f)] = f
summary_failed = set(re.findall(r"Verification failed for - proofs::(\w+)", log))
complete = re.search(r"Complete - (\d+) successfully verified harnesses, (\d+) failures, (\d+) total", log)
results = []
for h in sel:
    name = h["name"]
    text = ""
    for bn, f in files.items():
        if name in bn:
            try:
                text += open(f, errors="replace").read()
            except Exception:
                pass
    verdict = "not_decided"
    why = ""
    tm = re.search(r"Verification Time: ([0-9.]+)s", text)
    if "VERIFICATION:- SUCCESSFUL" in text and name not in summary_failed:
        verdict = "verified"
    elif name in summary_failed or "VERIFICATION:- FAILED" in text:
        if "timed out" in text or "CBMC timed out" in text:
            why = "timeout"
        elif "unwinding assertion" in text:
            why = "unwinding assertion"
        elif "out of memory" in text.lower() or "Status: ERROR" in text:
            why = "tool error / memory"
        elif "Failed Checks:" in text:
            verdict = "failed"
            why = "; ".join(re.findall(r"Failed Checks: (.*)", text))[:300]
        else:
            why = "failed without a failed check (timeout under load?)"
    elif complete is None:
        why = "kani did not complete: " + log[-300:]
    r = dict(h)
    r.update({"verdict": verdict, "why": why, "cbmc_time_s": float(tm.group(1)) if tm else None})
    results.append(r)

def classify(h):
    w = h["width"]
    parts = ["w>128" if w > 128 else ("64<w<=128" if w > 64 else "w<=64")]
    amt = h["params"].get("amt")
    if amt is not None:
        if amt >= w:
            parts.append("w<=amt<2^32")
        elif amt != 0 and amt % 64 == 0:
            parts.append("amt%64==0")
        else:
            parts.append("amt<w")
        if w % 64 != 0:
            parts.append("w%64!=0")
    return ";".join(parts)

pverif = os.path.join(ROOT, ".build", "harness", "debug", "pverif")
for r in results:
    r["class"] = classify(r)
    if r["verdict"] != "failed":
        continue
    # concrete playback of this harness alone
    q = subprocess.run(["cargo", "kani", "--target-dir", tgt, "-Z", "concrete-playback", "--concrete-playback=print", "--exact", "--harness", "proofs::" + r["name"]], cwd=HERE, env=env, capture_output=True, text=True, timeout=cap * 2 + 120)
    vecs = re.findall(r"vec!\[([0-9, ]*)\]", q.stdout)
    vals = []
    for v in vecs:
        b = [int(x) for x in v.split(",") if x.strip()]
        if len(b) == 16:
            vals.append(int.from_bytes(bytes(b), "little"))
    r["replay_values"] = [hex(v) for v in vals[:2]]
    r["failed_check"] = r["why"]
    if len(vals) >= 2 and os.path.exists(pverif):
        a, b = vals[0], vals[1]
        rp = subprocess.run([pverif, "kernel-replay", json.dumps(r), str(a), str(b)], capture_output=True, text=True)
        r["native_replay"] = rp.stdout.strip().split("\n")[-1] if rp.stdout.strip() else "error: " + rp.stderr[-200:]
    else:
        r["native_replay"] = "no values decoded"
ver = subprocess.run(["cargo", "kani", "--version"], capture_output=True, text=True, env=env).stdout.strip()
json.dump({"tier": tier, "kani_version": ver, "cap_s": cap, "jobs": jobs, "wall_s": round(time.time() - t0, 1), "harnesses": results}, open(out_path, "w"), indent=1)
print(f"kani: {sum(1 for r in results if r['verdict']=='verified')} verified, {sum(1 for r in results if r['verdict']=='failed')} failed, {sum(1 for r in results if r['verdict']=='not_decided')} not decided of {len(results)} in {time.time()-t0:.0f}s")
