//! C05 — SMT-LIB output of an expression is well-sorted and means the same thing.
//! Real code: smt::serialize_cmd (DeclareConst, DefineConst, Assert, CheckSatAssuming, GetValue).
//! Oracle: RefSmt over reference symbols that are *defined* from the symbols the real code
//! declared; both solvers' front ends are the sort checkers.

use crate::bigeval;
use crate::miter;
use crate::refsmt::{Op, RefEnc, Ty, decompose, sort};
use crate::report::{Report, Role, Tier};
use crate::rng::Rng;
use crate::shapes::{self, LeafMode, RandCfg, Sh};
use crate::solver::{Answer, Proc, Which};
use patronus::expr::{Context, ExprRef};
use patronus::smt::{SmtCommand, serialize_cmd};
use rayon::prelude::*;
use serde_json::json;

pub const SITE: &str = "smt::serialize_cmd (serialize_expr / serialize_type / escape_smt_identifier)";

/// symbol-name classes; `{}` is replaced by a per-symbol unique suffix
pub const NAME_CLASSES: [&str; 15] =
    ["{}", "x {}", "9{}", "{}#b", "a:{}", "ä{}", "{}@0", "{}.b!c", "$t{}", "{} (", "a;{}", "\"{}\"", "<#b>", "<#x>", "<d.d>"];

/// the last three classes are names spelled like SMT-LIB literals (binary, hex, decimal); they are
/// legal symbols once quoted and unique per (symbol index, type)
pub fn namer(class: usize) -> impl Fn(u8, Ty) -> String {
    move |i: u8, t: Ty| {
        let (a, b) = match t {
            Ty::BV(w) => (w, 0),
            Ty::Arr(x, y) => (x + 1000, y),
        };
        match NAME_CLASSES[class % NAME_CLASSES.len()] {
            "<#b>" => format!("#b{:03b}{:012b}{:08b}", i, a, b),
            "<#x>" => format!("#x{:x}{:04x}{:02x}", i, a, b),
            "<d.d>" => format!("{}.{}{:03}", i, a, b),
            c => c.replace("{}", &shapes::sym_name(i, t)),
        }
    }
}

pub fn generate(tier: Tier, seed: u64) -> Vec<Sh> {
    let mut out = vec![];
    let ws: Vec<u32> = vec![1, 2, 8, 65];
    for &w in ws.iter() {
        let mut sigs = shapes::signatures(Ty::BV(w), w, true);
        if w != 1 {
            sigs.extend(shapes::signatures(Ty::BV(1), w, true).into_iter().filter(|s| matches!(s.op, Op::Equal | Op::Ugt | Op::Sgt | Op::Uge | Op::Sge | Op::ArrayEqual)));
        }
        for iw in [1u32, 2] {
            sigs.extend(shapes::signatures(Ty::Arr(iw, w), w, true));
        }
        for sig in sigs.iter() {
            out.extend(shapes::depth1(sig, LeafMode::Reduced));
            // quick tier: the depth-2 (consumer, position, producer) enumeration at a Bool-ish and a
            // wide width; thorough: at all four widths with more leaf variety
            if tier == Tier::Thorough || w == 1 || w == 8 {
                out.extend(shapes::depth2_with(sig, w, true, tier.pick(LeafMode::SymsOnly, LeafMode::Minimal)));
            }
        }
    }
    let n = tier.pick(2000usize, 30000usize);
    let cfg = RandCfg { max_depth: 4, div: true, widths: vec![1, 1, 2, 3, 8, 65] };
    for i in 0..n {
        let mut rng = Rng::new(seed, "C05-dag", i as u64);
        let w = *rng.pick(&cfg.widths);
        let t = if rng.chance(1, 8) { Ty::Arr(rng.range(1, 2), w) } else { Ty::BV(w) };
        let d = rng.range(3, 4) as usize;
        let mut pool = vec![];
        out.push(shapes::random_shape(&mut rng, t, d, &cfg, &mut pool));
    }
    out
}

fn quoted(name: &str) -> String {
    format!("|{name}|")
}

/// text converting a term of the sort the real code uses (Bool for 1 bit) into the all-BitVec
/// sorts of RefSmt
pub fn to_ref_pub(term: &str, t: Ty) -> String {
    to_ref(term, t)
}

fn to_ref(term: &str, t: Ty) -> String {
    match t {
        Ty::BV(1) => format!("(ite {term} #b1 #b0)"),
        Ty::BV(_) => term.to_string(),
        Ty::Arr(iw, dw) => {
            if iw != 1 && dw != 1 {
                return term.to_string();
            }
            assert!(iw <= 3, "Bool-sorted arrays are generated with index width <= 3");
            let mut s = format!("((as const {}) {})", sort(t), bigeval::bv_smt(&0u32.into(), dw));
            for i in 0..(1u32 << iw) {
                let ib = bigeval::bv_smt(&i.into(), iw);
                let pi = if iw == 1 { if i == 1 { "true".to_string() } else { "false".to_string() } } else { ib.clone() };
                let sel = format!("(select {term} {pi})");
                let sel = if dw == 1 { format!("(ite {sel} #b1 #b0)") } else { sel };
                s = format!("(store {s} {ib} {sel})");
            }
            s
        }
    }
}

pub struct Script {
    pub text: String,
    pub cvc5_ok: bool,
    pub ref_term: String,
    pub out_term: String,
    pub ref_decls: Vec<(String, Ty, ExprRef)>,
    pub ty: Ty,
}

/// a writer that fails after `left` bytes (a full pipe to a dead solver, a fixed-size buffer)
struct FailingWriter {
    left: usize,
}
impl std::io::Write for FailingWriter {
    fn write(&mut self, buf: &[u8]) -> std::io::Result<usize> {
        if buf.len() > self.left {
            self.left = 0;
            return Err(std::io::Error::new(std::io::ErrorKind::BrokenPipe, "harness: writer full"));
        }
        self.left -= buf.len();
        Ok(buf.len())
    }
    fn flush(&mut self) -> std::io::Result<()> {
        Ok(())
    }
}

thread_local! {
    static REAL_CMD_CALLS: std::cell::Cell<u64> = const { std::cell::Cell::new(0) };
}

/// The real writer. Every fifth call on a thread is preceded by a serialisation of the same command into a
/// writer that fails part-way (the writer must not carry state from an aborted term into the next one: the
/// text produced afterwards is what the solver judges, as for every other call).
pub fn real_cmd(ctx: &Context, cmd: &SmtCommand) -> String {
    let n = REAL_CMD_CALLS.with(|c| {
        c.set(c.get() + 1);
        c.get()
    });
    if n % 5 == 0 {
        let mut probe: Vec<u8> = vec![];
        if serialize_cmd(&mut probe, Some(ctx), cmd).is_ok() && probe.len() > 8 {
            let mut w = FailingWriter { left: 3 + (n as usize % (probe.len() - 4)) };
            let _ = serialize_cmd(&mut w, Some(ctx), cmd);
        }
    }
    let mut buf: Vec<u8> = vec![];
    serialize_cmd(&mut buf, Some(ctx), cmd).expect("serialize_cmd failed");
    String::from_utf8(buf).expect("serialize_cmd wrote non-UTF-8")
}

/// declarations by the real code + reference symbols linked to them + reference definitions
fn prelude(ctx: &Context, e: ExprRef) -> Result<(String, RefEnc<'_>, String, Ty), String> {
    let mut r = RefEnc::new(ctx, "n");
    let (rt, ty) = r.enc(e).map_err(|x| x.0)?;
    let mut text = String::new();
    for (_, _, s) in r.decls.iter() {
        text.push_str(&real_cmd(ctx, &SmtCommand::DeclareConst(*s)));
    }
    for (n, t, s) in r.decls.iter() {
        let real = quoted(ctx.get_symbol_name(*s).unwrap());
        text.push_str(&format!("(define-fun {n} () {} {})\n", sort(*t), to_ref(&real, *t)));
    }
    text.push_str(&r.defs);
    Ok((text, r, rt, ty))
}

/// like `prelude`, but declares every symbol of `all` (in the real code's sorts), not only those of `e`
pub fn prelude_all(ctx: &Context, e: ExprRef, all: &[ExprRef]) -> Result<(String, String, Ty, bool), String> {
    let mut r = RefEnc::new(ctx, "n");
    let (rt, ty) = r.enc(e).map_err(|x| x.0)?;
    let mut text = String::new();
    for s in all.iter() {
        text.push_str(&real_cmd(ctx, &SmtCommand::DeclareConst(*s)));
    }
    for (_, _, s) in r.decls.iter() {
        if !all.contains(s) {
            text.push_str(&real_cmd(ctx, &SmtCommand::DeclareConst(*s)));
        }
    }
    for (n, t, s) in r.decls.iter() {
        let real = quoted(ctx.get_symbol_name(*s).unwrap());
        text.push_str(&format!("(define-fun {n} () {} {})\n", sort(*t), to_ref(&real, *t)));
    }
    text.push_str(&r.defs);
    Ok((text, rt, ty, !r.nonvalue_const_array))
}

pub fn define_script(ctx: &mut Context, e: ExprRef) -> Result<Script, String> {
    let out_sym = {
        let t = ctx[e].clone();
        let _ = t;
        use patronus::expr::TypeCheck;
        let tp = e.get_type(ctx);
        let name = ctx.string("out!real".into());
        ctx.symbol(name, tp)
    };
    let (mut text, r, rt, ty) = prelude(ctx, e)?;
    text.push_str(&real_cmd(ctx, &SmtCommand::DefineConst(out_sym, e)));
    let out_term = to_ref("out!real", ty);
    text.push_str(&format!("(assert (distinct {rt} {out_term}))\n"));
    Ok(Script { text, cvc5_ok: !r.nonvalue_const_array, ref_term: rt, out_term, ref_decls: r.decls.clone(), ty })
}

fn class_of(ctx: &Context, e: ExprRef) -> (String, String) {
    let n = decompose(&ctx[e]);
    let kinds: Vec<String> = n
        .kids
        .iter()
        .map(|k| {
            let kn = decompose(&ctx[*k]);
            let w = RefEnc::type_of(ctx, *k).ok();
            let wc = match w {
                Some(Ty::BV(1)) => "1",
                Some(Ty::BV(_)) => "w",
                Some(Ty::Arr(i, d)) => match (i, d) {
                    (1, 1) => "arr[B,B]",
                    (1, _) => "arr[B,w]",
                    (_, 1) => "arr[w,B]",
                    _ => "arr[w,w]",
                },
                None => "?",
            };
            let k = match kn.op {
                Op::BVLiteral => "lit",
                Op::BVSymbol | Op::ArraySymbol => "sym",
                o => o.name(),
            };
            format!("{k}:{wc}")
        })
        .collect();
    (n.op.name().to_string(), kinds.join(","))
}

/// smallest sub-expression whose own DefineConst script is already rejected / wrong
fn minimize(ctx: &mut Context, p: &mut Proc, e: ExprRef) -> ExprRef {
    let mut cur = e;
    'outer: loop {
        for k in decompose(&ctx[cur]).kids {
            if let Ok(s) = define_script(ctx, k) {
                if p.check_once(&s.text) != Answer::Unsat {
                    cur = k;
                    continue 'outer;
                }
            }
        }
        return cur;
    }
}

struct Job {
    sh_idx: usize,
    e: ExprRef,
    kind: &'static str,
    script: Script,
    expect: Answer,
}

fn handle_failure(rep: &mut Report, ctx: &mut Context, hard: &mut Vec<Proc>, sh: &Sh, name_class: usize, j: &Job, answers: &[(Which, Answer)]) {
    // which solvers object?
    let errors: Vec<String> = answers.iter().filter_map(|(w, a)| if let Answer::Error(m) = a { Some(format!("{}: {m}", w.name())) } else { None }).collect();
    let wrong: Vec<&(Which, Answer)> = answers.iter().filter(|(_, a)| *a != j.expect && !matches!(a, Answer::Error(_))).collect();
    let undecided = wrong.iter().all(|(_, a)| matches!(a, Answer::Unknown | Answer::Timeout));
    if errors.is_empty() && undecided {
        // more time and the other solvers before giving up
        let mut extra = vec![];
        for p in hard.iter_mut() {
            if p.which == Which::Cvc5 && !j.script.cvc5_ok {
                continue;
            }
            let a = p.check_once(&j.script.text);
            if a == j.expect {
                rep.count("discharged", 1);
                rep.count("discharged_by_second_solver", 1);
                return;
            }
            extra.push((p.which, a));
        }
        if extra.iter().all(|(_, a)| matches!(a, Answer::Unknown | Answer::Timeout)) {
            rep.inconc(json!({"input": sh.show(), "kind": j.kind, "answers": format!("{answers:?} {extra:?}")}));
            return;
        }
        let mut all: Vec<(Which, Answer)> = answers.to_vec();
        all.extend(extra);
        return handle_failure(rep, ctx, hard, sh, name_class, j, &all.into_iter().filter(|(_, a)| !matches!(a, Answer::Unknown | Answer::Timeout)).collect::<Vec<_>>());
    }
    let m = if j.kind == "define" { minimize(ctx, &mut hard[0], j.e) } else { j.e };
    let (op, class) = class_of(ctx, m);
    let mut detail = json!({});
    if errors.is_empty() && j.kind == "define" {
        // value disagreement: get the model of the reference symbols and both values
        let p = &mut hard[0];
        p.push();
        if p.check(&j.script.text) == Answer::Sat {
            if let Ok(model) = miter::read_model(p, &j.script.ref_decls) {
                let env = miter::model_env(&model);
                let refv = bigeval::eval(ctx, &env, j.e).map(|v| v.show()).unwrap_or_else(|e| e);
                let vals = p.get_values(&[j.script.ref_term.clone(), j.script.out_term.clone()]);
                detail = json!({"model": miter::model_json(ctx, &model), "big_integer_value_of_expression": refv,
                    "solver_value_of_reference_term": vals.as_ref().map(|v| v[0].clone()), "solver_value_of_written_term": vals.as_ref().map(|v| v[1].clone())});
                // replay (ii): second solver with the model pinned
                if hard.len() > 1 {
                    let mut pin = j.script.text.clone();
                    for (_, n, v) in model.iter() {
                        pin.push_str(&format!("(assert (= {n} {}))\n", v.smt()));
                    }
                    let a2 = hard[1].check_once(&pin);
                    detail["second_solver_with_model_pinned"] = json!(a2.short());
                }
            }
        }
        hard[0].pop();
    }
    let kind = if errors.is_empty() { "value" } else { "rejected" };
    rep.count("disagreements_checked", 1);
    rep.violation(
        Role::new(SITE, &op, &format!("{kind};{};{class}", j.kind)),
        format!(
            "{} text for {} (names class {:?}) is {}: {}",
            j.kind,
            sh.show(),
            NAME_CLASSES[name_class % NAME_CLASSES.len()],
            if errors.is_empty() { "not equivalent to the expression" } else { "rejected by a solver front end" },
            if errors.is_empty() { format!("{answers:?}") } else { errors.join(" | ") }
        ),
        json!({"shape": sh.to_json(), "shape_text": sh.show(), "name_class": name_class, "kind": j.kind, "script": j.script.text,
            "answers": format!("{answers:?}"), "detail": detail, "minimal_subexpression": crate::c01::show(ctx, m)}),
    );
}

fn run_chunk(rep: &mut Report, chunk: &[Sh], base: usize, tier: Tier) {
    let mut z3 = Proc::new(Which::Z3New, 5000);
    let mut cvc5 = Proc::new(Which::Cvc5, 5000);
    let mut z3old: Option<Proc> = if tier == Tier::Thorough { Some(Proc::new(Which::Z3, 5000)) } else { None };
    let mut hard: Vec<Proc> = vec![];
    for (sci, sub) in chunk.chunks(100).enumerate() {
        let mut ctx = Context::default();
        let mut jobs: Vec<Job> = vec![];
        for (i, sh) in sub.iter().enumerate() {
            crate::panics::set_context(format!("C05 shape {}", sh.show()));
            let idx = base + sci * 100 + i;
            rep.count("programs", 1);
            let nm = namer(idx);
            let built = crate::panics::guarded(|| {
                let e = sh.build_with(&mut ctx, &nm);
                let s = define_script(&mut ctx, e);
                (e, s)
            });
            let (e, script) = match built {
                Ok((e, Ok(s))) => (e, s),
                Ok((_, Err(m))) => {
                    rep.undecided.push(format!("generator/RefSmt problem on {}: {m}", sh.show()));
                    continue;
                }
                Err((loc, msg)) => {
                    rep.violation(Role::new(SITE, sh.root_op().map(|o| o.name()).unwrap_or("leaf"), &format!("panic@{loc}")), format!("serialize_cmd panicked ({msg}) on {}", sh.show()), json!({"shape": sh.to_json(), "shape_text": sh.show(), "name_class": idx}));
                    continue;
                }
            };
            let ty = script.ty;
            jobs.push(Job { sh_idx: i, e, kind: "define", script, expect: Answer::Unsat });
            if ty == Ty::BV(1) && idx % 3 == 0 {
                // Assert / CheckSatAssuming / GetValue on Boolean expressions
                if let Ok((pre, r, rt, _)) = prelude(&ctx, e) {
                    let cvc5_ok = !r.nonvalue_const_array;
                    let decls = r.decls.clone();
                    let t_assert = format!("{pre}{}(assert (= {rt} #b0))\n", real_cmd(&ctx, &SmtCommand::Assert(e)));
                    jobs.push(Job { sh_idx: i, e, kind: "assert", script: Script { text: t_assert, cvc5_ok, ref_term: rt.clone(), out_term: String::new(), ref_decls: decls.clone(), ty }, expect: Answer::Unsat });
                    let t_csa = format!("{pre}(assert (= {rt} #b0))\n{}", real_cmd(&ctx, &SmtCommand::CheckSatAssuming(vec![e, e])));
                    jobs.push(Job { sh_idx: i, e, kind: "check-sat-assuming", script: Script { text: t_csa, cvc5_ok, ref_term: rt.clone(), out_term: String::new(), ref_decls: decls.clone(), ty }, expect: Answer::Unsat });
                    let t_gv = format!("{pre}(check-sat)\n{}", real_cmd(&ctx, &SmtCommand::GetValue(e)));
                    jobs.push(Job { sh_idx: i, e, kind: "get-value", script: Script { text: t_gv, cvc5_ok, ref_term: rt, out_term: String::new(), ref_decls: decls, ty }, expect: Answer::Sat });
                }
            }
        }
        let bodies: Vec<String> = jobs.iter().map(|j| j.script.text.clone()).collect();
        let a_z3 = z3.check_batch(&bodies);
        // cvc5's front end is the second sort checker; quick tier: every 8th instance (the coercion logic
        // depends on operator/position/producer, which every 8th instance still covers many times over)
        let stride = tier.pick(8usize, 1usize);
        let cv_idx: Vec<usize> = (0..jobs.len()).filter(|i| jobs[*i].script.cvc5_ok && (base + sci * 100 + jobs[*i].sh_idx) % stride == 0).collect();
        if cvc5.queries > 3000 {
            cvc5.restart();
            cvc5.queries = 0;
        }
        let cv_bodies: Vec<String> = cv_idx.iter().map(|i| bodies[*i].clone()).collect();
        let a_cv = cvc5.check_batch(&cv_bodies);
        let a_old = z3old.as_mut().map(|p| p.check_batch(&bodies));
        let mut cv_map = std::collections::HashMap::new();
        for (k, i) in cv_idx.iter().enumerate() {
            cv_map.insert(*i, a_cv[k].clone());
        }
        for (ji, j) in jobs.iter().enumerate() {
            rep.count("obligations", 1);
            let mut answers = vec![(Which::Z3New, a_z3[ji].clone())];
            if let Some(a) = cv_map.get(&ji) {
                answers.push((Which::Cvc5, a.clone()));
                rep.count("cvc5_front_end_checks", 1);
            } else {
                rep.count("not_sent_to_cvc5", 1);
            }
            if let Some(o) = a_old.as_ref() {
                answers.push((Which::Z3, o[ji].clone()));
            }
            let all_ok = answers.iter().all(|(_, a)| *a == j.expect);
            // an undecided *second* opinion does not void a decided first one, an error does
            let first_ok = answers[0].1 == j.expect;
            let others_soft = answers[1..].iter().all(|(_, a)| *a == j.expect || matches!(a, Answer::Unknown | Answer::Timeout));
            let sh = &sub[j.sh_idx];
            if all_ok || (first_ok && others_soft) {
                rep.count("discharged", 1);
                if !all_ok {
                    rep.count("second_opinion_undecided", 1);
                }
                let idx = base + sci * 100 + j.sh_idx;
                if idx % 1499 == 0 {
                    rep.sample(json!({"input": sh.show(), "kind": j.kind, "answer": j.expect.short(), "script": j.script.text}), 12);
                }
            } else {
                if hard.is_empty() {
                    hard.push(Proc::new(Which::Z3New, 20_000));
                    hard.push(Proc::new(Which::Cvc5, 20_000));
                    hard.push(Proc::new(Which::Z3, 20_000));
                }
                let idx = base + sci * 100 + j.sh_idx;
                handle_failure(rep, &mut ctx, &mut hard, sh, idx, j, &answers);
            }
        }
    }
    rep.count("solver_time_ms", (z3.solver_time + cvc5.solver_time).as_millis() as u64);
    rep.count("solver_queries", z3.queries + cvc5.queries);
}

fn canaries(rep: &mut Report) {
    // a deliberately wrong reference must be noticed: compare e with not(e) through the same path
    let mut ctx = Context::default();
    let mut p = Proc::new(Which::Z3New, 10_000);
    let mut total = 0;
    let mut ok = 0;
    for w in [1u32, 8] {
        let a = ctx.bv_symbol("a", w);
        let b = ctx.bv_symbol("b", w);
        let e = ctx.greater_or_equal_signed(a, b);
        let wrong = ctx.greater_signed(a, b);
        // script of `e`, but with the real text of `wrong`
        let s = define_script(&mut ctx, e).unwrap();
        let s_wrong = define_script(&mut ctx, wrong).unwrap();
        let real_e = s.text.lines().find(|l| l.starts_with("(define-fun out!real")).unwrap().to_string();
        let real_w = s_wrong.text.lines().find(|l| l.starts_with("(define-fun out!real")).unwrap().to_string();
        let perturbed = s.text.replace(&real_e, &real_w);
        total += 1;
        if p.check_once(&perturbed) == Answer::Sat {
            ok += 1;
        }
        // ill-sorted text must produce an error
        let bad = s.text.replace(&real_e, "(define-fun out!real () Bool (bvadd a b))");
        total += 1;
        if matches!(p.check_once(&bad), Answer::Error(_)) {
            ok += 1;
        }
    }
    rep.count("canaries", total);
    rep.count("canaries_ok", ok);
    if ok != total {
        rep.undecided.push(format!("canary failure: {ok}/{total}"));
    }
}

pub fn run(tier: Tier, seed: u64, replay: Option<serde_json::Value>) -> i32 {
    let mut rep = Report::new("C05", tier, seed, "translation_validation");
    let mut base_override = None;
    let instances: Vec<Sh> = match &replay {
        Some(r) => {
            rep.write_files = false;
            base_override = r["replay"]["name_class"].as_u64().map(|x| x as usize);
            vec![Sh::from_json(&r["replay"]["shape"]).expect("replay file has no shape")]
        }
        None => generate(tier, seed),
    };
    canaries(&mut rep);
    let chunks: Vec<(usize, &[Sh])> = instances.chunks(400).enumerate().collect();
    let parts: Vec<Report> = chunks
        .par_iter()
        .map(|(ci, chunk)| {
            let mut r = Report::new("C05", tier, seed, "translation_validation");
            run_chunk(&mut r, chunk, base_override.unwrap_or(ci * 400), tier);
            r
        })
        .collect();
    for p in parts {
        rep.merge(p);
    }
    let mut by_root: std::collections::BTreeMap<String, u64> = Default::default();
    for s in instances.iter() {
        *by_root.entry(s.root_op().map(|o| o.name()).unwrap_or("leaf").to_string()).or_default() += 1;
    }
    rep.extra.insert("shapes_by_root_operator".into(), json!(by_root));
    rep.extra.insert("bounds".into(), json!({"widths": [1, 2, 8, 65], "depth_exhaustive": 2, "depth_sampled": 4, "name_classes": NAME_CLASSES,
        "array_sorts": "index width 1..3 x data width in {1,2,8,65} (Bool index and/or Bool data included)"}));
    rep.extra.insert("functions_encoded".into(), json!(["smt::serialize_cmd: DeclareConst, DefineConst, Assert, CheckSatAssuming, GetValue (serialize_expr, serialize_type, escape_smt_identifier)"]));
    rep.extra.insert("outside_claim".into(), json!(["symbol names containing | or \\ and names equal to SMT-LIB reserved words or theory symbols", "widths other than 1, 2, 8, 65", "shapes deeper than 4"]));
    let (z, c) = crate::solver::solver_versions();
    rep.extra.insert("solver".into(), json!({"z3-new": "5.1.0", "z3": z, "cvc5": c}));
    rep.assumptions = vec![
        "RefSmt is the SMT-LIB reading of Expr".into(),
        "the front ends of z3 5.1 and cvc5 1.0 implement SMT-LIB 2 sort checking (cvc5 is skipped for terms with a non-literal value under the non-standard `as const`)".into(),
    ];
    rep.finish()
}
