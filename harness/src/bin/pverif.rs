use pverif::report::Tier;

fn main() {
    let args: Vec<String> = std::env::args().collect();
    if args.len() < 2 {
        eprintln!("usage: pverif <Cxx> [--tier quick|thorough] [--replay file]");
        std::process::exit(2);
    }
    let prop = args[1].clone();
    if prop == "kernel-replay" {
        let spec: serde_json::Value = serde_json::from_str(&args[2]).expect("harness spec");
        let a: u128 = args[3].parse().unwrap();
        let b: u128 = args[4].parse().unwrap();
        pverif::panics::install();
        println!("{}", pverif::c06::kernel_replay(&spec, a, b));
        return;
    }
    if prop == "dbg-sys" {
        // pverif dbg-sys <stream> <index>
        let seed = pverif::rng::seed_from_env();
        let idx: u64 = args[3].parse().unwrap();
        let spec = match args[2].as_str() {
            "C02" => pverif::c02::spec_for(seed, idx),
            "C03" => pverif::c03::spec_for(seed, idx),
            "C04" => pverif::c04::spec_for(seed, idx),
            _ => panic!("stream"),
        };
        println!("{}", spec.show());
        return;
    }
    if prop == "dbg-parse" {
        // pverif dbg-parse '<term>' name:width ...
        let mut ctx = patronus::expr::Context::default();
        let mut st: rustc_hash::FxHashMap<String, patronus::expr::ExprRef> = Default::default();
        for a in &args[3..] {
            let (n, w) = a.rsplit_once(':').unwrap();
            let s = ctx.bv_symbol(n, w.parse().unwrap());
            st.insert(n.to_string(), s);
        }
        let r = patronus::smt::parse_expr(&mut ctx, &st, args[2].as_bytes());
        use patronus::expr::SerializableIrNode;
        println!("{:?}", r.map(|e| e.serialize_to_str(&ctx)));
        return;
    }
    let mut tier = match std::env::var("VERIF_TIER").ok().as_deref() {
        Some("thorough") => Tier::Thorough,
        _ => Tier::Quick,
    };
    let mut replay = None;
    let mut i = 2;
    while i < args.len() {
        match args[i].as_str() {
            "--tier" => {
                tier = if args[i + 1] == "thorough" { Tier::Thorough } else { Tier::Quick };
                i += 1;
            }
            "--replay" => {
                let txt = std::fs::read_to_string(&args[i + 1]).expect("cannot read replay file");
                replay = Some(serde_json::from_str::<serde_json::Value>(&txt).expect("replay file is not JSON"));
                i += 1;
            }
            _ => {}
        }
        i += 1;
    }
    let seed = pverif::rng::seed_from_env();
    // quiet panics of the code under test (they are caught and reported)
    pverif::panics::install();
    if prop.starts_with('C') {
        let limit = std::env::var("PVERIF_WATCHDOG_S").ok().and_then(|v| v.parse().ok()).unwrap_or(if tier == Tier::Thorough { 900 } else { 300 });
        pverif::panics::start_watchdog(&prop, tier, seed, limit);
    }
    let code = std::panic::catch_unwind(std::panic::AssertUnwindSafe(|| match prop.as_str() {
        "C01" => pverif::c01::run(tier, seed, replay),
        "C02" => pverif::c02::run(tier, seed, replay),
        "C03" => pverif::c03::run(tier, seed, replay),
        "C04" => pverif::c04::run(tier, seed, replay),
        "C05" => pverif::c05::run(tier, seed, replay),
        "C06" => pverif::c06::run(tier, seed, replay),
        "C08" => pverif::c08::run(tier, seed, replay),
        "C09" => pverif::c09::run(tier, seed, replay),
        "C10" => pverif::c10::run(tier, seed, replay),
        "C11" => pverif::c11::run(tier, seed, replay),
        "C14" => pverif::c14::run(tier, seed, replay),
        "C20" => pverif::c20::run(tier, seed, replay),
        "C17" => pverif::c17::run(tier, seed, replay),
        "selftest" => pverif::selftest::run(),
        "C19" => pverif::c19::run(tier, seed, replay),
        _ => {
            eprintln!("unknown property {prop}");
            2
        }
    }))
    .unwrap_or_else(|_| {
        println!("HARNESS-PANIC: the check itself crashed (see stderr); nothing was decided");
        2
    });
    std::process::exit(code);
}
