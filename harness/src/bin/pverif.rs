use pverif::report::Tier;

fn main() {
    let args: Vec<String> = std::env::args().collect();
    if args.len() < 2 {
        eprintln!("usage: pverif <Cxx> [--tier quick|thorough] [--replay file]");
        std::process::exit(2);
    }
    let prop = args[1].clone();
    let mut tier = match std::env::var("VERIF_TIER").ok().as_deref() {
        Some("thorough") => Tier::Thorough,
        _ => Tier::Quick,
    };
    let mut replay = None;
    let mut i = 2;
    while i < args.len() {
        match args[i].as_str() {
            "--tier" => {
                tier = if args[i + 1] == "thorough" { Tier::Thorough } else { Tier::Quick };
                i += 1;
            }
            "--replay" => {
                let txt = std::fs::read_to_string(&args[i + 1]).expect("cannot read replay file");
                replay = Some(serde_json::from_str::<serde_json::Value>(&txt).expect("replay file is not JSON"));
                i += 1;
            }
            _ => {}
        }
        i += 1;
    }
    let seed = pverif::rng::seed_from_env();
    // quiet panics of the code under test (they are caught and reported)
    pverif::panics::install();
    let code = match prop.as_str() {
        "C01" => pverif::c01::run(tier, seed, replay),
        _ => {
            eprintln!("unknown property {prop}");
            2
        }
    };
    std::process::exit(code);
}
