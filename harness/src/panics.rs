//! Panic capture: the code under test is run inside catch_unwind; the hook records where it
//! panicked (file:line, registry prefix stripped) so that the location can be part of a role key.

use std::cell::RefCell;

thread_local! {
    static LAST: RefCell<Option<(String, String)>> = const { RefCell::new(None) };
    static DEPTH: std::cell::Cell<u32> = const { std::cell::Cell::new(0) };
}

pub fn install() {
    let verbose = std::env::var("PVERIF_PANIC").is_ok();
    let default = std::panic::take_hook();
    std::panic::set_hook(Box::new(move |info| {
        let loc = info
            .location()
            .map(|l| {
                let f = l.file();
                let f = f.rsplit_once("/registry/src/").map(|(_, r)| r.split_once('/').map(|x| x.1).unwrap_or(r)).unwrap_or(f);
                let f = f.strip_prefix("/repo/").unwrap_or(f);
                // scratch copies used by seeded/matrix.py live under /tmp/mx*/repo/
                let f = f.split_once("/repo/").map(|x| x.1).unwrap_or(f);
                format!("{f}:{}", l.line())
            })
            .unwrap_or_else(|| "?".into());
        let msg = if let Some(s) = info.payload().downcast_ref::<&str>() {
            s.to_string()
        } else if let Some(s) = info.payload().downcast_ref::<String>() {
            s.clone()
        } else {
            "?".into()
        };
        LAST.with(|l| *l.borrow_mut() = Some((loc, msg)));
        // panics outside `guarded` are bugs of the harness itself: always show them
        if verbose || DEPTH.with(|d| d.get()) == 0 {
            default(info);
        }
    }));
}

/// (location, message) of the most recent panic on this thread
pub fn take() -> (String, String) {
    LAST.with(|l| l.borrow_mut().take()).unwrap_or(("?".into(), "?".into()))
}

/// Run `f`, catching panics; Err carries (location, message).
pub fn guarded<T>(f: impl FnOnce() -> T) -> Result<T, (String, String)> {
    DEPTH.with(|d| d.set(d.get() + 1));
    let r = std::panic::catch_unwind(std::panic::AssertUnwindSafe(f));
    DEPTH.with(|d| d.set(d.get() - 1));
    match r {
        Ok(v) => Ok(v),
        Err(_) => Err(take()),
    }
}
