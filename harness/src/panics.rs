//! Panic capture: the code under test is run inside catch_unwind; the hook records where it
//! panicked (file:line, registry prefix stripped) so that the location can be part of a role key.

use std::cell::RefCell;

thread_local! {
    static LAST: RefCell<Option<(String, String)>> = const { RefCell::new(None) };
    static DEPTH: std::cell::Cell<u32> = const { std::cell::Cell::new(0) };
    static CONTEXT: RefCell<String> = const { RefCell::new(String::new()) };
    static EXEMPT: std::cell::Cell<bool> = const { std::cell::Cell::new(false) };
}

// ---------------------------------------------------------------------------------------------
// watchdog: a call into the code under test that never returns (a parser or rewrite loop that stops
// advancing) must not hang the check. Every outermost `guarded` call registers a slot; a watchdog thread
// reports a call that has been running for longer than the limit as a violation and ends the run.

struct Slot {
    tid: std::thread::ThreadId,
    since: std::time::Instant,
    what: String,
}

static SLOTS: std::sync::Mutex<Vec<Slot>> = std::sync::Mutex::new(Vec::new());

/// describe the instance this thread is working on (shown if the watchdog fires)
pub fn set_context(s: impl Into<String>) {
    CONTEXT.with(|c| *c.borrow_mut() = s.into());
}

/// threads that run the code under test under their own time limit (bmc / pdr runs)
pub fn exempt_this_thread() {
    EXEMPT.with(|e| e.set(true));
}

pub fn start_watchdog(prop: &str, tier: crate::report::Tier, seed: u64, limit_s: u64) {
    let prop = prop.to_string();
    std::thread::spawn(move || {
        loop {
            std::thread::sleep(std::time::Duration::from_secs(2));
            let stuck = {
                let slots = SLOTS.lock().unwrap_or_else(|e| e.into_inner());
                slots.iter().find(|s| s.since.elapsed().as_secs() > limit_s).map(|s| s.what.clone())
            };
            if let Some(what) = stuck {
                let mut rep = crate::report::Report::new(&prop, tier, seed, "other");
                rep.count("obligations", 1);
                rep.violation(
                    crate::report::Role::new("code under test (watchdog of the harness)", "call", "no-return-within-limit"),
                    format!("a call into the code under test has not returned for more than {limit_s} s while working on: {}; the run was ended by the watchdog, results of other instances are discarded", if what.is_empty() { "(instance not recorded)" } else { &what }),
                    serde_json::json!({"watchdog_limit_s": limit_s, "instance": what}),
                );
                rep.extra.insert("aborted_by_watchdog".into(), serde_json::json!(true));
                let code = rep.finish();
                std::process::exit(code);
            }
        }
    });
}

pub fn install() {
    let verbose = std::env::var("PVERIF_PANIC").is_ok();
    let default = std::panic::take_hook();
    std::panic::set_hook(Box::new(move |info| {
        let loc = info
            .location()
            .map(|l| {
                let f = l.file();
                let f = f.rsplit_once("/registry/src/").map(|(_, r)| r.split_once('/').map(|x| x.1).unwrap_or(r)).unwrap_or(f);
                let f = f.strip_prefix("/repo/").unwrap_or(f);
                // scratch copies used by seeded/matrix.py live under /tmp/mx*/repo/
                let f = f.split_once("/repo/").map(|x| x.1).unwrap_or(f);
                format!("{f}:{}", l.line())
            })
            .unwrap_or_else(|| "?".into());
        let msg = if let Some(s) = info.payload().downcast_ref::<&str>() {
            s.to_string()
        } else if let Some(s) = info.payload().downcast_ref::<String>() {
            s.clone()
        } else {
            "?".into()
        };
        LAST.with(|l| *l.borrow_mut() = Some((loc, msg)));
        // panics outside `guarded` are bugs of the harness itself: always show them
        if verbose || DEPTH.with(|d| d.get()) == 0 {
            default(info);
        }
    }));
}

/// (location, message) of the most recent panic on this thread
pub fn take() -> (String, String) {
    LAST.with(|l| l.borrow_mut().take()).unwrap_or(("?".into(), "?".into()))
}

/// Run `f`, catching panics; Err carries (location, message).
pub fn guarded<T>(f: impl FnOnce() -> T) -> Result<T, (String, String)> {
    let outermost = DEPTH.with(|d| d.get()) == 0 && !EXEMPT.with(|e| e.get());
    let tid = std::thread::current().id();
    if outermost {
        let what = CONTEXT.with(|c| c.borrow().clone());
        SLOTS.lock().unwrap_or_else(|e| e.into_inner()).push(Slot { tid, since: std::time::Instant::now(), what });
    }
    DEPTH.with(|d| d.set(d.get() + 1));
    let r = std::panic::catch_unwind(std::panic::AssertUnwindSafe(f));
    DEPTH.with(|d| d.set(d.get() - 1));
    if outermost {
        SLOTS.lock().unwrap_or_else(|e| e.into_inner()).retain(|s| s.tid != tid);
    }
    match r {
        Ok(v) => Ok(v),
        Err(_) => Err(take()),
    }
}
