//! C14 — the SMT-LIB reader inverts the writer and reads solver model values correctly.
//! Real code: smt::parse_expr, parse_command, parse_get_value_response (through raw responses of
//! the installed solvers started with patronus' own arguments, and through the real
//! SmtLibSolverCtx::get_value), the writer of C05.

use crate::bigeval::{self, Val};
use crate::c05;
use crate::miter::{self, Verdict};
use crate::refsmt::{self, Op, RefEnc, Ty};
use crate::report::{Report, Role, Tier};
use crate::shapes::Sh;
use crate::solver::{Answer, Proc, Which};
use num_bigint::BigUint;
use patronus::expr::{Context, ExprRef, TypeCheck};
use patronus::smt::{SmtCommand, parse_command, parse_expr, read_command};
use rayon::prelude::*;
use rustc_hash::FxHashMap;
use serde_json::json;
use std::collections::BTreeMap;

pub const SITE_EXPR: &str = "smt::parse_expr (round trip of smt::serialize_cmd text)";
pub const SITE_CMD: &str = "smt::parse_command (round trip of smt::serialize_cmd text)";
pub const SITE_STREAM: &str = "smt::read_command (script streams written by smt::serialize_cmd, one symbol table)";
pub const SITE_READER: &str = "smt::parse_expr (standard terms in the spellings found in smt/serialize.rs; the solver's own reading of the text is the reference)";
pub const SITE_VAL: &str = "smt::parse_expr on solver model values / SmtLibSolverCtx::get_value";

fn real_cmd(ctx: &Context, cmd: &SmtCommand) -> String {
    c05::real_cmd(ctx, cmd)
}

fn term_text(ctx: &Context, e: ExprRef) -> String {
    let t = real_cmd(ctx, &SmtCommand::Assert(e));
    t.trim().strip_prefix("(assert ").unwrap().strip_suffix(')').unwrap().to_string()
}

fn symbol_table(ctx: &mut Context, sh: &Sh, nm: &dyn Fn(u8, Ty) -> String) -> FxHashMap<String, ExprRef> {
    let mut syms = vec![];
    sh.symbols(&mut syms);
    let mut st = FxHashMap::default();
    for (i, t) in syms {
        let s = Sh::Sym(i, t).build_with(ctx, nm);
        st.insert(ctx.get_symbol_name(s).unwrap().to_string(), s);
    }
    st
}

fn class_of(ctx: &Context, e: ExprRef) -> (String, String) {
    let n = refsmt::decompose(&ctx[e]);
    let kinds: Vec<String> = n
        .kids
        .iter()
        .map(|k| {
            let kn = refsmt::decompose(&ctx[*k]);
            let w = match RefEnc::type_of(ctx, *k).ok() {
                Some(Ty::BV(1)) => "1",
                Some(Ty::BV(_)) => "w",
                Some(Ty::Arr(..)) => "arr",
                None => "?",
            };
            let k = match kn.op {
                Op::BVLiteral => "lit",
                Op::BVSymbol | Op::ArraySymbol => "sym",
                o => o.name(),
            };
            format!("{k}:{w}")
        })
        .collect();
    (n.op.name().to_string(), kinds.join(","))
}

/// `(let ((N S)) T[S:=N])` for an argument sub-term S of the written term T. Returns the text and
/// whether N is the name of a declared symbol (shadowing).
fn let_variant(text: &str, st: &FxHashMap<String, ExprRef>, salt: usize) -> Option<(String, bool)> {
    let b = text.as_bytes();
    // candidate sub-terms: '(' preceded by whitespace, head not `_`, `as`, `Array`
    let mut cands: Vec<(usize, usize)> = vec![];
    for i in 1..b.len() {
        if b[i] == b'(' && b[i - 1].is_ascii_whitespace() {
            let rest = &text[i + 1..];
            let head = rest.split(|c: char| c.is_whitespace() || c == '(' || c == ')').next().unwrap_or("");
            if head.is_empty() || head == "_" || head == "as" || head == "Array" {
                continue;
            }
            let mut depth = 0;
            let mut in_bar = false;
            for (j, c) in b[i..].iter().enumerate() {
                match c {
                    b'|' => in_bar = !in_bar,
                    b'(' if !in_bar => depth += 1,
                    b')' if !in_bar => {
                        depth -= 1;
                        if depth == 0 {
                            cands.push((i, i + j + 1));
                            break;
                        }
                    }
                    _ => {}
                }
            }
        }
    }
    if cands.is_empty() {
        return None;
    }
    let (lo, hi) = cands[salt % cands.len()];
    let sub = &text[lo..hi];
    let outside = format!("{}{}", &text[..lo], &text[hi..]);
    // a declared symbol that occurs inside the sub-term but nowhere else
    // only unquoted spellings: solvers never print quoted binder names and the reader does not accept
    // them (limitation outside the property), so binders are simple symbols
    let spell = |n: &str| -> Vec<String> { vec![n.to_string()] };
    let occurs = |hay: &str, n: &str| -> bool {
        spell(n).iter().any(|sp| hay.split(|c: char| c.is_whitespace() || c == '(' || c == ')').any(|tok| tok == sp))
    };
    let mut names: Vec<&String> = st.keys().collect();
    names.sort();
    let shadow = names.into_iter().find(|n| !n.contains(' ') && !n.contains('(') && occurs(sub, n) && !occurs(&outside, n));
    let (name, is_shadow) = match shadow {
        Some(n) => {
            let sp = spell(n).into_iter().find(|sp| sub.split(|c: char| c.is_whitespace() || c == '(' || c == ')').any(|tok| tok == sp)).unwrap();
            (sp, true)
        }
        None => ("pv!let".to_string(), false),
    };
    Some((format!("(let (({name} {sub})) {}{name}{})", &text[..lo], &text[hi..]), is_shadow))
}

/// `T[S := (let ((n S)) n)]` where n is a declared symbol that occurs again *after* S: once the
/// inner let is closed, n must denote the declared symbol again.
fn scoped_let_variant(text: &str, st: &FxHashMap<String, ExprRef>, salt: usize) -> Option<String> {
    let b = text.as_bytes();
    let mut cands: Vec<(usize, usize)> = vec![];
    for i in 1..b.len() {
        if b[i] == b'(' && b[i - 1].is_ascii_whitespace() {
            let head = text[i + 1..].split(|c: char| c.is_whitespace() || c == '(' || c == ')').next().unwrap_or("");
            if head.is_empty() || head == "_" || head == "as" || head == "Array" {
                continue;
            }
            let mut depth = 0;
            let mut in_bar = false;
            for (j, c) in b[i..].iter().enumerate() {
                match c {
                    b'|' => in_bar = !in_bar,
                    b'(' if !in_bar => depth += 1,
                    b')' if !in_bar => {
                        depth -= 1;
                        if depth == 0 {
                            cands.push((i, i + j + 1));
                            break;
                        }
                    }
                    _ => {}
                }
            }
        }
    }
    let toks = |s: &str| -> Vec<String> { s.split(|c: char| c.is_whitespace() || c == '(' || c == ')').map(|x| x.to_string()).collect() };
    let mut names: Vec<&String> = st.keys().filter(|n| !n.contains(' ') && !n.contains('(') && !n.contains('|')).collect();
    names.sort();
    let mut opts = vec![];
    for (lo, hi) in cands {
        let after = toks(&text[hi..]);
        for n in names.iter() {
            if after.iter().any(|t| t == *n) {
                opts.push((lo, hi, (*n).clone()));
            }
        }
    }
    if opts.is_empty() {
        return None;
    }
    let (lo, hi, n) = opts[salt % opts.len()].clone();
    Some(format!("{}(let (({n} {})) {n}){}", &text[..lo], &text[lo..hi], &text[hi..]))
}

/// `T[S := (let ((n S)) (ite (let ((n true)) n) n n))]`: an inner let re-binds a name that an outer let has
/// bound (to a value of another sort); once the inner let is closed, `n` must denote the outer binding again.
fn nested_let_variant(text: &str, salt: usize) -> Option<String> {
    let b = text.as_bytes();
    let mut cands: Vec<(usize, usize)> = vec![];
    for i in 1..b.len() {
        if b[i] == b'(' && b[i - 1].is_ascii_whitespace() {
            let head = text[i + 1..].split(|c: char| c.is_whitespace() || c == '(' || c == ')').next().unwrap_or("");
            if head.is_empty() || head == "_" || head == "as" || head == "Array" {
                continue;
            }
            let mut depth = 0;
            let mut in_bar = false;
            for (j, c) in b[i..].iter().enumerate() {
                match c {
                    b'|' => in_bar = !in_bar,
                    b'(' if !in_bar => depth += 1,
                    b')' if !in_bar => {
                        depth -= 1;
                        if depth == 0 {
                            cands.push((i, i + j + 1));
                            break;
                        }
                    }
                    _ => {}
                }
            }
        }
    }
    if cands.is_empty() {
        return None;
    }
    let (lo, hi) = cands[salt % cands.len()];
    let n = "pv!n";
    Some(format!("{}(let (({n} {})) (ite (let (({n} true)) {n}) {n} {n})){}", &text[..lo], &text[lo..hi], &text[hi..]))
}

/// `(let ((n C) (pv!m S)) T[S := pv!m])` - a let with two bindings: `n` is a declared symbol that occurs in S
/// and nowhere else in T, C a literal of n's sort. SMT-LIB lets bind in parallel, so S still sees the declared
/// `n` and the term means what T means; a reader that binds sequentially lets S see C.
fn multi_let_variant(text: &str, st: &FxHashMap<String, ExprRef>, ctx: &Context, salt: usize) -> Option<String> {
    let b = text.as_bytes();
    let mut cands: Vec<(usize, usize)> = vec![];
    for i in 1..b.len() {
        if b[i] == b'(' && b[i - 1].is_ascii_whitespace() {
            let head = text[i + 1..].split(|c: char| c.is_whitespace() || c == '(' || c == ')').next().unwrap_or("");
            if head.is_empty() || head == "_" || head == "as" || head == "Array" {
                continue;
            }
            let mut depth = 0;
            let mut in_bar = false;
            for (j, c) in b[i..].iter().enumerate() {
                match c {
                    b'|' => in_bar = !in_bar,
                    b'(' if !in_bar => depth += 1,
                    b')' if !in_bar => {
                        depth -= 1;
                        if depth == 0 {
                            cands.push((i, i + j + 1));
                            break;
                        }
                    }
                    _ => {}
                }
            }
        }
    }
    let toks = |s: &str| -> Vec<String> { s.split(|c: char| c.is_whitespace() || c == '(' || c == ')').map(|x| x.to_string()).collect() };
    let mut names: Vec<&String> = st.keys().filter(|n| !n.contains(' ') && !n.contains('(') && !n.contains('|') && !n.is_empty()).collect();
    names.sort();
    let mut opts = vec![];
    for (lo, hi) in cands {
        let inside = toks(&text[lo..hi]);
        let outside = toks(&format!("{} {}", &text[..lo], &text[hi..]));
        for n in names.iter() {
            if inside.iter().any(|t| t == *n) && !outside.iter().any(|t| t == *n) {
                let c = match ctx[st[*n]].get_type(ctx) {
                    patronus::expr::Type::BV(1) => "true".to_string(),
                    patronus::expr::Type::BV(w) => format!("#b{}", "1".repeat(w as usize)),
                    _ => continue,
                };
                opts.push((lo, hi, (*n).clone(), c));
            }
        }
    }
    if opts.is_empty() {
        return None;
    }
    let (lo, hi, n, c) = opts[salt % opts.len()].clone();
    Some(format!("(let (({n} {c}) (pv!m {})) {}pv!m{})", &text[lo..hi], &text[..lo], &text[hi..]))
}

struct EqJob {
    sh_idx: usize,
    what: &'static str,
    site: &'static str,
    text: String,
    a: ExprRef,
    b: ExprRef,
}

fn round_trip_chunk(rep: &mut Report, chunk: &[Sh], base: usize) {
    let mut z3 = Proc::new(Which::Z3New, 5000);
    let mut hard = miter::Portfolio::new(20_000);
    for (sci, sub) in chunk.chunks(100).enumerate() {
        let mut ctx = Context::default();
        let mut jobs: Vec<EqJob> = vec![];
        for (i, sh) in sub.iter().enumerate() {
            crate::panics::set_context(format!("C14 round trip of shape {}", sh.show()));
            let idx = base + sci * 100 + i;
            rep.count("programs", 1);
            let nm = c05::namer(idx);
            let e = sh.build_with(&mut ctx, &nm);
            let st = symbol_table(&mut ctx, sh, &nm);
            let ty = e.get_type(&ctx);
            // expression round trip
            let text = term_text(&ctx, e);
            rep.count("obligations", 1);
            let parsed = crate::panics::guarded(|| parse_expr(&mut ctx, &st, text.as_bytes()));
            let fail = |rep: &mut Report, ctx: &Context, kind: &str, detail: String| {
                let (op, class) = class_of(ctx, e);
                rep.violation(
                    Role::new(SITE_EXPR, &op, &format!("{kind};{class}")),
                    format!("written term `{text}` of {} is read back wrongly: {detail}", sh.show()),
                    json!({"shape": sh.to_json(), "shape_text": sh.show(), "name_class": idx, "part": "expr", "text": text, "detail": detail}),
                );
            };
            match parsed {
                Err((loc, msg)) => fail(rep, &ctx, &format!("panic@{loc}"), format!("reader panicked: {msg}")),
                Ok(Err(err)) => fail(rep, &ctx, "error", format!("reader returned error {err:?}")),
                Ok(Ok(e2)) => {
                    if e2.get_type(&ctx) != ty {
                        fail(rep, &ctx, "type", format!("type {:?} read back as {:?}", ty, e2.get_type(&ctx)));
                    } else if e2 == e {
                        rep.count("identical_by_hash_consing", 1);
                        rep.count("discharged", 1);
                    } else {
                        jobs.push(EqJob { sh_idx: i, what: "expr", site: SITE_EXPR, text: text.clone(), a: e, b: e2 });
                    }
                }
            }
            // let-introduction: the same term with one argument sub-term bound by a `let` (standard
            // SMT-LIB, value-preserving); the binder shadows a declared symbol where possible
            if idx % 3 == 0 {
                if let Some((lt, shadow)) = let_variant(&text, &st, idx) {
                    rep.count("obligations", 1);
                    rep.count("let_variants", 1);
                    if shadow {
                        rep.count("let_variants_shadowing_a_declared_symbol", 1);
                    }
                    match crate::panics::guarded(|| parse_expr(&mut ctx, &st, lt.as_bytes())) {
                        Ok(Ok(e3)) if e3 == e => {
                            rep.count("identical_by_hash_consing", 1);
                            rep.count("discharged", 1);
                        }
                        Ok(Ok(e3)) if e3.get_type(&ctx) == ty => jobs.push(EqJob { sh_idx: i, what: "let-variant", site: SITE_EXPR, text: lt.clone(), a: e, b: e3 }),
                        other => {
                            let (op, class) = class_of(&ctx, e);
                            let detail = match other {
                                Ok(Ok(_)) => "type differs".to_string(),
                                Ok(Err(err)) => format!("error {err:?}"),
                                Err((loc, msg)) => format!("panic at {loc}: {msg}"),
                            };
                            rep.violation(Role::new(SITE_EXPR, &op, &format!("let-variant-rejected;{class}")), format!("let-variant `{lt}` of the written term of {} is not read: {detail}", sh.show()),
                                json!({"shape": sh.to_json(), "shape_text": sh.show(), "name_class": idx, "part": "let-variant", "text": lt}));
                        }
                    }
                }
            }
            if idx % 3 == 1 {
                for (vi, lt) in [scoped_let_variant(&text, &st, idx), nested_let_variant(&text, idx)].into_iter().enumerate().filter_map(|(k, x)| x.map(|y| (k, y))) {
                    if vi == 1 {
                        rep.count("nested_let_variants", 1);
                    }
                    rep.count("obligations", 1);
                    rep.count("scoped_let_variants", 1);
                    match crate::panics::guarded(|| parse_expr(&mut ctx, &st, lt.as_bytes())) {
                        Ok(Ok(e3)) if e3 == e => {
                            rep.count("identical_by_hash_consing", 1);
                            rep.count("discharged", 1);
                        }
                        Ok(Ok(e3)) if e3.get_type(&ctx) == ty => jobs.push(EqJob { sh_idx: i, what: "scoped-let-variant", site: SITE_EXPR, text: lt.clone(), a: e, b: e3 }),
                        other => {
                            let (op, class) = class_of(&ctx, e);
                            let detail = match other {
                                Ok(Ok(_)) => "type differs".to_string(),
                                Ok(Err(err)) => format!("error {err:?}"),
                                Err((loc, msg)) => format!("panic at {loc}: {msg}"),
                            };
                            rep.violation(Role::new(SITE_EXPR, &op, &format!("scoped-let-variant-rejected;{class}")), format!("scoped let-variant `{lt}` of the written term of {} is not read: {detail}", sh.show()),
                                json!({"shape": sh.to_json(), "shape_text": sh.show(), "name_class": idx, "part": "scoped-let-variant", "text": lt}));
                        }
                    }
                }
            }
            // lets with several bindings bind in parallel. The pinned reader rejects them (an error is fine); a
            // reader that accepts them must give them the parallel meaning
            if idx % 3 == 2 {
                if let Some(lt) = multi_let_variant(&text, &st, &ctx, idx) {
                    match crate::panics::guarded(|| parse_expr(&mut ctx, &st, lt.as_bytes())) {
                        Ok(Err(_)) => rep.count("multi_binding_lets_rejected_with_error", 1),
                        Err((loc, msg)) => {
                            if msg.contains("not yet implemented") || msg.contains("not implemented") {
                                rep.count("multi_binding_lets_todo", 1);
                            } else {
                                rep.count("obligations", 1);
                                let (op, class) = class_of(&ctx, e);
                                rep.violation(Role::new(SITE_EXPR, &op, &format!("multi-binding-let;panic@{loc};{class}")), format!("reader panics on `{lt}`: {msg}"), json!({"shape": sh.to_json(), "shape_text": sh.show(), "name_class": idx, "part": "multi-binding-let", "text": lt}));
                            }
                        }
                        Ok(Ok(e3)) => {
                            rep.count("obligations", 1);
                            rep.count("multi_binding_lets_read", 1);
                            if e3 == e {
                                rep.count("identical_by_hash_consing", 1);
                                rep.count("discharged", 1);
                            } else if e3.get_type(&ctx) == ty {
                                jobs.push(EqJob { sh_idx: i, what: "multi-binding-let", site: SITE_EXPR, text: lt.clone(), a: e, b: e3 });
                            } else {
                                let (op, class) = class_of(&ctx, e);
                                rep.violation(Role::new(SITE_EXPR, &op, &format!("multi-binding-let;type;{class}")), format!("`{lt}` is read as a term of another type than {}", sh.show()), json!({"shape": sh.to_json(), "shape_text": sh.show(), "name_class": idx, "part": "multi-binding-let", "text": lt}));
                            }
                        }
                    }
                }
            }
            // command round trip (every 2nd instance)
            if idx % 2 == 0 {
                let mut syms: Vec<ExprRef> = st.values().copied().collect();
                syms.sort();
                let out_sym = {
                    let name = ctx.string(format!("out!{}", idx % 7).into());
                    ctx.symbol(name, ty)
                };
                let mut cmds: Vec<SmtCommand> = vec![SmtCommand::DefineConst(out_sym, e)];
                if let Some(s) = syms.first() {
                    cmds.push(SmtCommand::DeclareConst(*s));
                }
                if ty == patronus::expr::Type::BV(1) {
                    cmds.push(SmtCommand::Assert(e));
                    cmds.push(SmtCommand::CheckSatAssuming(vec![e, ctx.not(e)]));
                    cmds.push(SmtCommand::GetValue(e));
                }
                for cmd in cmds {
                    rep.count("obligations", 1);
                    let text = real_cmd(&ctx, &cmd);
                    let parsed = crate::panics::guarded(|| parse_command(&mut ctx, &st, text.as_bytes()));
                    let mut bad: Option<(String, String)> = None;
                    let mut pairs: Vec<(ExprRef, ExprRef)> = vec![];
                    match parsed {
                        Err((loc, msg)) => {
                            // GetValue is not a command the reader documents; a clean panic (todo!) is tolerated there
                            if !matches!(cmd, SmtCommand::GetValue(_)) {
                                bad = Some((format!("panic@{loc}"), format!("reader panicked: {msg}")));
                            } else {
                                rep.count("get_value_command_not_readable", 1);
                            }
                        }
                        Ok(Err(err)) => {
                            if !matches!(cmd, SmtCommand::GetValue(_)) {
                                bad = Some(("error".into(), format!("reader returned error {err:?}")));
                            } else {
                                rep.count("get_value_command_not_readable", 1);
                            }
                        }
                        Ok(Ok(c2)) => match (&cmd, &c2) {
                            (SmtCommand::DeclareConst(a), SmtCommand::DeclareConst(b)) => {
                                if a != b {
                                    bad = Some(("declare".into(), format!("declared symbol differs: {:?} vs {:?}", ctx[*a], ctx[*b])));
                                }
                            }
                            (SmtCommand::DefineConst(sa, ea), SmtCommand::DefineConst(sb, eb)) => {
                                if sa != sb {
                                    bad = Some(("define-symbol".into(), format!("defined symbol differs: {:?} vs {:?}", ctx[*sa], ctx[*sb])));
                                } else {
                                    pairs.push((*ea, *eb));
                                }
                            }
                            (SmtCommand::Assert(a), SmtCommand::Assert(b)) => pairs.push((*a, *b)),
                            (SmtCommand::GetValue(a), SmtCommand::GetValue(b)) => pairs.push((*a, *b)),
                            (SmtCommand::CheckSatAssuming(a), SmtCommand::CheckSatAssuming(b)) => {
                                if a.len() != b.len() {
                                    bad = Some(("assumption-count".into(), format!("{} assumptions read back as {}", a.len(), b.len())));
                                } else {
                                    pairs.extend(a.iter().copied().zip(b.iter().copied()));
                                }
                            }
                            _ => bad = Some(("command-kind".into(), format!("read back as a different command: {c2:?}"))),
                        },
                    }
                    if let Some((kind, detail)) = bad {
                        let (op, class) = class_of(&ctx, e);
                        rep.violation(
                            Role::new(SITE_CMD, &op, &format!("{kind};{class}")),
                            format!("written command `{}` is read back wrongly: {detail}", text.trim()),
                            json!({"shape": sh.to_json(), "shape_text": sh.show(), "name_class": idx, "part": "command", "text": text, "detail": detail}),
                        );
                        continue;
                    }
                    let mut all_same = true;
                    for (a, b) in pairs {
                        if a.get_type(&ctx) != b.get_type(&ctx) {
                            let (op, class) = class_of(&ctx, e);
                            rep.violation(Role::new(SITE_CMD, &op, &format!("type;{class}")), format!("command `{}` read back with a different type", text.trim()), json!({"shape": sh.to_json(), "name_class": idx, "part": "command", "text": text}));
                            all_same = false;
                        } else if a != b {
                            all_same = false;
                            jobs.push(EqJob { sh_idx: i, what: "command", site: SITE_CMD, text: text.clone(), a, b });
                            rep.count("obligations", 1);
                        }
                    }
                    if all_same {
                        rep.count("discharged", 1);
                        rep.count("identical_by_hash_consing", 1);
                    } else {
                        // the command obligation is carried by its expression jobs
                        rep.uncount("obligations", 1);
                    }
                }
            }
        }
        // decide the differing pairs
        let mut bodies = vec![];
        for j in jobs.iter() {
            bodies.push(refsmt::miter_opt(&ctx, j.a, j.b, true).map(|m| m.text).unwrap_or_else(|e| format!("(assert false) ; ill-typed {e:?}")));
        }
        let answers = z3.check_batch(&bodies);
        for (ji, j) in jobs.iter().enumerate() {
            let sh = &sub[j.sh_idx];
            let idx = base + sci * 100 + j.sh_idx;
            if answers[ji] == Answer::Unsat {
                rep.count("discharged", 1);
                rep.count("read_back_differs_syntactically_proved_equal", 1);
                if idx % 499 == 0 {
                    rep.sample(json!({"input": sh.show(), "text": j.text, "read_back": crate::c01::show(&ctx, j.b), "answer": "unsat", "smt2": bodies[ji]}), 10);
                }
                continue;
            }
            let (v, smt) = hard.check_equiv(&ctx, j.a, j.b);
            match v {
                Verdict::Equal => {
                    rep.count("discharged", 1);
                    rep.count("read_back_differs_syntactically_proved_equal", 1);
                }
                Verdict::Differ { model, va, vb } => {
                    rep.count("disagreements_checked", 1);
                    let (op, class) = class_of(&ctx, j.a);
                    rep.violation(
                        Role::new(j.site, &op, &format!("value;{class}")),
                        format!("`{}` written for {} is read back as {} which differs under {}: {} vs {}", j.text.trim(), sh.show(), crate::c01::show(&ctx, j.b),
                            model.iter().map(|(e, _, v)| format!("{}={}", ctx.get_symbol_name(*e).unwrap_or("?"), v.show())).collect::<Vec<_>>().join(", "), va.show(), vb.show()),
                        json!({"shape": sh.to_json(), "shape_text": sh.show(), "name_class": idx, "part": j.what, "text": j.text, "read_back": crate::c01::show(&ctx, j.b),
                            "model": miter::model_json(&ctx, &model), "real_eval_original": miter::real_eval(&ctx, &model, j.a), "real_eval_read_back": miter::real_eval(&ctx, &model, j.b), "smt2": smt}),
                    );
                }
                Verdict::Unconfirmed { detail, .. } => rep.undecided.push(format!("ENCODING-ERROR on {}: {detail}", sh.show())),
                Verdict::Inconclusive(why) => rep.inconc(json!({"input": sh.show(), "why": why})),
                Verdict::IllTyped(m) => {
                    let (op, class) = class_of(&ctx, j.a);
                    rep.violation(Role::new(j.site, &op, &format!("ill-typed;{class}")), format!("`{}` is read back as an ill-typed expression: {m}", j.text.trim()), json!({"shape": sh.to_json(), "name_class": idx, "part": j.what, "text": j.text}));
                }
            }
        }
    }
    rep.count("solver_time_ms", z3.solver_time.as_millis() as u64 + hard.stats().0);
    rep.count("solver_queries", z3.queries + hard.stats().1);
}

// ---------------------------------------------------------------------------------------------
// command streams: a whole script (declarations, definitions, push/pop, re-declaration of a name with
// another sort in a later scope) is written by the real writer and read back command by command with
// the real `read_command`, which carries the table of declared symbols from one command to the next.

fn stream_part(rep: &mut Report, instances: &[Sh], tier: Tier, seed: u64, only: Option<(usize, usize)>) {
    let with_syms: Vec<usize> = instances
        .iter()
        .enumerate()
        .filter(|(_, s)| {
            let mut v = vec![];
            s.symbols(&mut v);
            !v.is_empty()
        })
        .map(|(i, _)| i)
        .collect();
    if with_syms.len() < 2 {
        return;
    }
    let n = tier.pick(1500usize, 20000usize);
    let mut pairs: Vec<(usize, usize)> = vec![];
    match only {
        Some(p) => pairs.push(p),
        None => {
            let mut rng = crate::rng::Rng::new(seed, "C14-stream", 0);
            let mut tries = 0;
            while pairs.len() < n && tries < n * 20 {
                tries += 1;
                let a = with_syms[rng.below(with_syms.len())];
                let b = with_syms[rng.below(with_syms.len())];
                let (mut sa, mut sb) = (vec![], vec![]);
                instances[a].symbols(&mut sa);
                instances[b].symbols(&mut sb);
                if sa[0].1 != sb[0].1 {
                    pairs.push((a, b));
                }
            }
        }
    }
    let chunks: Vec<&[(usize, usize)]> = pairs.chunks(100).collect();
    let parts: Vec<Report> = chunks
        .par_iter()
        .map(|chunk| {
            let mut r = Report::new("C14", tier, seed, "translation_validation");
            let mut hard = miter::Portfolio::new(10_000);
            let mut ctx = Context::default();
            for (k, (ia, ib)) in chunk.iter().enumerate() {
                crate::panics::set_context(format!("C14 command stream for shapes {} and {}", instances[*ia].show(), instances[*ib].show()));
                if k % 25 == 24 {
                    ctx = Context::default();
                }
                let (sa, sb) = (&instances[*ia], &instances[*ib]);
                let (mut ya, mut yb) = (vec![], vec![]);
                sa.symbols(&mut ya);
                sb.symbols(&mut yb);
                let (fa, fb) = (ya[0], yb[0]);
                let nm_a = move |i: u8, t: Ty| if (i, t) == fa { "shared!".to_string() } else { crate::shapes::sym_name(i, t) };
                let nm_b = move |i: u8, t: Ty| if (i, t) == fb { "shared!".to_string() } else { crate::shapes::sym_name(i, t) };
                let ea = sa.build_with(&mut ctx, &nm_a);
                let eb = sb.build_with(&mut ctx, &nm_b);
                let mut cmds: Vec<SmtCommand> = vec![SmtCommand::SetLogic(patronus::smt::Logic::All), SmtCommand::Push(1)];
                let decls = |ctx: &mut Context, syms: &[(u8, Ty)], nm: &dyn Fn(u8, Ty) -> String, out: &mut Vec<SmtCommand>| {
                    for (i, t) in syms.iter() {
                        let s = Sh::Sym(*i, *t).build_with(ctx, nm);
                        out.push(SmtCommand::DeclareConst(s));
                    }
                };
                decls(&mut ctx, &ya, &nm_a, &mut cmds);
                let out_a = {
                    let n = ctx.string("out!a".into());
                    let t = ea.get_type(&ctx);
                    ctx.symbol(n, t)
                };
                cmds.push(SmtCommand::DefineConst(out_a, ea));
                if ea.get_type(&ctx) == patronus::expr::Type::BV(1) {
                    cmds.push(SmtCommand::Assert(ea));
                }
                cmds.push(SmtCommand::CheckSat);
                cmds.push(SmtCommand::Pop(1));
                cmds.push(SmtCommand::Push(1));
                decls(&mut ctx, &yb, &nm_b, &mut cmds);
                let out_b = {
                    // the same output name, possibly with another sort
                    let n = ctx.string("out!a".into());
                    let t = eb.get_type(&ctx);
                    ctx.symbol(n, t)
                };
                cmds.push(SmtCommand::DefineConst(out_b, eb));
                if eb.get_type(&ctx) == patronus::expr::Type::BV(1) {
                    cmds.push(SmtCommand::CheckSatAssuming(vec![eb]));
                }
                cmds.push(SmtCommand::Assert({
                    let o = out_b;
                    ctx.equal(o, eb)
                }));
                cmds.push(SmtCommand::Pop(1));
                let text: String = cmds.iter().map(|c| real_cmd(&ctx, c)).collect();
                r.count("obligations", 1);
                r.count("script_streams", 1);
                let show = format!("A = {} ; B = {} (first symbol of each is named `shared!`)", sa.show(), sb.show());
                let replay = json!({"part": "stream", "pair": [ia, ib], "text": text});
                let read = crate::panics::guarded(|| {
                    let mut inp = std::io::Cursor::new(text.as_bytes());
                    let mut st: FxHashMap<String, ExprRef> = FxHashMap::default();
                    let mut out = vec![];
                    while let Ok(Some(c)) = read_command(&mut inp, &mut ctx, &mut st) {
                        out.push(c);
                    }
                    out
                });
                let got = match read {
                    Ok(g) => g,
                    Err((loc, msg)) => {
                        r.violation(Role::new(SITE_STREAM, "script", &format!("panic@{loc}")), format!("script stream for {show} is not read back: {msg}"), replay);
                        continue;
                    }
                };
                if got.len() != cmds.len() {
                    r.violation(Role::new(SITE_STREAM, "script", "command-count"), format!("script stream for {show}: {} commands written, {} read", cmds.len(), got.len()), replay);
                    continue;
                }
                let mut ok = true;
                for (ci, (w, g)) in cmds.iter().zip(got.iter()).enumerate() {
                    let mut exprs: Vec<(ExprRef, ExprRef)> = vec![];
                    let mut bad: Option<String> = None;
                    match (w, g) {
                        (SmtCommand::DeclareConst(a), SmtCommand::DeclareConst(b)) => {
                            if a != b {
                                bad = Some(format!("declared symbol {:?} read as {:?}", ctx[*a], ctx[*b]));
                            }
                        }
                        (SmtCommand::DefineConst(x, a), SmtCommand::DefineConst(y, b)) => {
                            if x != y {
                                bad = Some(format!("defined symbol {:?} read as {:?}", ctx[*x], ctx[*y]));
                            }
                            exprs.push((*a, *b));
                        }
                        (SmtCommand::Assert(a), SmtCommand::Assert(b)) => exprs.push((*a, *b)),
                        (SmtCommand::CheckSatAssuming(a), SmtCommand::CheckSatAssuming(b)) if a.len() == b.len() => exprs.extend(a.iter().copied().zip(b.iter().copied())),
                        (SmtCommand::Push(a), SmtCommand::Push(b)) | (SmtCommand::Pop(a), SmtCommand::Pop(b)) if a == b => {}
                        (SmtCommand::CheckSat, SmtCommand::CheckSat) => {}
                        (SmtCommand::SetLogic(a), SmtCommand::SetLogic(b)) if a == b => {}
                        _ => bad = Some(format!("command #{ci} `{}` read as {g:?}", real_cmd(&ctx, w).trim())),
                    }
                    for (a, b) in exprs {
                        if bad.is_some() || a == b {
                            continue;
                        }
                        if a.get_type(&ctx) != b.get_type(&ctx) {
                            bad = Some(format!("command #{ci} `{}`: term written with type {:?}, read with type {:?}", real_cmd(&ctx, w).trim(), a.get_type(&ctx), b.get_type(&ctx)));
                            continue;
                        }
                        match hard.check_equiv(&ctx, a, b).0 {
                            Verdict::Equal => {}
                            Verdict::Differ { va, vb, .. } => bad = Some(format!("command #{ci} `{}` read as a term with a different value ({} vs {})", real_cmd(&ctx, w).trim(), va.show(), vb.show())),
                            Verdict::IllTyped(m) => bad = Some(format!("command #{ci} read as an ill-typed term: {m}")),
                            Verdict::Inconclusive(why) => {
                                r.inconc(json!({"stream": show, "why": why}));
                                ok = false;
                            }
                            Verdict::Unconfirmed { detail, .. } => {
                                r.undecided.push(format!("ENCODING-ERROR in stream {show}: {detail}"));
                                ok = false;
                            }
                        }
                    }
                    if let Some(b) = bad {
                        let kind = if ci >= cmds.iter().rposition(|c| matches!(c, SmtCommand::Push(_))).unwrap_or(0) { "after-redeclaration" } else { "first-scope" };
                        r.violation(Role::new(SITE_STREAM, "script", kind), format!("script stream for {show}: {b}"), replay.clone());
                        ok = false;
                        break;
                    }
                }
                if ok {
                    r.count("discharged", 1);
                }
            }
            r.count("solver_time_ms", hard.stats().0);
            r.count("solver_queries", hard.stats().1);
            r
        })
        .collect();
    for p in parts {
        rep.merge(p);
    }
}

// ---------------------------------------------------------------------------------------------
// reader semantics, independent of the expression builders: for every operator spelling found in the
// *source* of the writer (smt/serialize.rs, re-read on every run), a term in that spelling over declared
// symbols is read by the real reader; the solver then decides whether the expression that was read
// (RefSmt, by destructuring) equals the text itself as the solver reads it.

fn reader_semantics_part(rep: &mut Report) {
    let src = match std::fs::read_to_string(crate::report::repo_root().join("patronus/src/smt/serialize.rs")) {
        Ok(s) => s,
        Err(e) => {
            rep.undecided.push(format!("CANNOT-ENCODE: smt/serialize.rs not readable: {e}"));
            return;
        }
    };
    let emitted = |name: &str| src.contains(&format!("\"({name} ")) || src.contains(&format!("(_ {name} ")) || (name == "const" && src.contains("(as const "));
    // operators the *reader* accepts (harvested from its source) although the writer never emits them: solvers
    // print them in model values and responses; a term the reader accepts must get its SMT-LIB meaning
    let reader_src = std::fs::read_to_string(crate::report::repo_root().join("patronus/src/smt/parser.rs")).unwrap_or_default();
    let accepted = |name: &str| reader_src.contains(&format!("Sym(b\"{name}\")"));
    let mut z3 = Proc::new(Which::Z3New, 10_000);
    let mut second = Proc::new(Which::Cvc5, 10_000);
    for w in [2u32, 8, 65] {
        let mut ctx = Context::default();
        let a = ctx.bv_symbol("a", w);
        let b = ctx.bv_symbol("b", w);
        let c = ctx.bv_symbol("c", 3);
        let i = ctx.bv_symbol("i", 2);
        let p = ctx.bv_symbol("p", 1);
        let q = ctx.bv_symbol("q", 1);
        let m = ctx.array_symbol("m", 2, w);
        let m2 = ctx.array_symbol("m2", 2, w);
        let all = vec![a, b, c, i, p, q, m, m2];
        let mut st: FxHashMap<String, ExprRef> = FxHashMap::default();
        for s in all.iter() {
            st.insert(ctx.get_symbol_name(*s).unwrap().to_string(), *s);
        }
        let arr = format!("(Array (_ BitVec 2) (_ BitVec {w}))");
        let mut cases: Vec<(&str, String, Ty)> = vec![];
        for n in ["bvnot", "bvneg"] {
            cases.push((n, format!("({n} a)"), Ty::BV(w)));
        }
        for n in ["bvand", "bvor", "bvxor", "bvshl", "bvashr", "bvlshr", "bvadd", "bvmul", "bvsdiv", "bvudiv", "bvsmod", "bvsrem", "bvurem", "bvsub"] {
            cases.push((n, format!("({n} a b)"), Ty::BV(w)));
        }
        for n in ["bvugt", "bvsgt", "bvuge", "bvsge"] {
            cases.push((n, format!("({n} a b)"), Ty::BV(1)));
            cases.push((n, format!("({n} b a)"), Ty::BV(1)));
        }
        cases.push(("=", "(= a b)".into(), Ty::BV(1)));
        cases.push(("=", "(= p q)".into(), Ty::BV(1)));
        cases.push(("=", "(= m m2)".into(), Ty::BV(1)));
        cases.push(("=>", "(=> p q)".into(), Ty::BV(1)));
        cases.push(("=>", "(=> q p)".into(), Ty::BV(1)));
        cases.push(("not", "(not p)".into(), Ty::BV(1)));
        for n in ["and", "or", "xor"] {
            cases.push((n, format!("({n} p q)"), Ty::BV(1)));
        }
        cases.push(("concat", "(concat a c)".into(), Ty::BV(w + 3)));
        cases.push(("concat", "(concat c a)".into(), Ty::BV(w + 3)));
        cases.push(("zero_extend", "((_ zero_extend 3) a)".into(), Ty::BV(w + 3)));
        cases.push(("sign_extend", "((_ sign_extend 3) a)".into(), Ty::BV(w + 3)));
        cases.push(("extract", format!("((_ extract {} 0) a)", w - 1), Ty::BV(w)));
        if w > 2 {
            cases.push(("extract", format!("((_ extract {} 1) a)", w - 2), Ty::BV(w - 2)));
        }
        cases.push(("ite", "(ite p a b)".into(), Ty::BV(w)));
        cases.push(("ite", "(ite p q (not p))".into(), Ty::BV(1)));
        cases.push(("ite", "(ite p m m2)".into(), Ty::Arr(2, w)));
        cases.push(("select", "(select m i)".into(), Ty::BV(w)));
        cases.push(("store", "(store m i a)".into(), Ty::Arr(2, w)));
        cases.push(("store", "(store (store m i a) (bvnot i) b)".into(), Ty::Arr(2, w)));
        cases.push(("const", format!("((as const {arr}) a)"), Ty::Arr(2, w)));
        // standard operators outside the writer's vocabulary, and n-ary / chained forms
        let mut reader_only: Vec<(&str, String, Ty)> = vec![];
        for n in ["bvult", "bvule", "bvslt", "bvsle", "distinct"] {
            let t = Ty::BV(1);
            reader_only.push((n, format!("({n} a b)"), t));
            reader_only.push((n, format!("({n} b a)"), t));
        }
        for n in ["bvnand", "bvnor", "bvxnor"] {
            reader_only.push((n, format!("({n} a b)"), Ty::BV(w)));
        }
        reader_only.push(("distinct", "(distinct p q)".into(), Ty::BV(1)));
        reader_only.push(("distinct", "(distinct a b (bvnot a))".into(), Ty::BV(1)));
        for n in ["bvand", "bvor", "bvxor", "bvadd", "bvmul"] {
            reader_only.push((n, format!("({n} a b (bvnot a))"), Ty::BV(w)));
            reader_only.push((n, format!("({n} a b a b)"), Ty::BV(w)));
        }
        for n in ["and", "or", "xor"] {
            reader_only.push((n, format!("({n} p q (not p))"), Ty::BV(1)));
        }
        reader_only.push(("=", "(= a b a)".into(), Ty::BV(1)));
        reader_only.push(("=", "(= p q p)".into(), Ty::BV(1)));
        reader_only.push(("=>", "(=> p q p)".into(), Ty::BV(1)));
        reader_only.push(("=>", "(=> p q (not q))".into(), Ty::BV(1)));
        reader_only.push(("concat", "(concat a c a)".into(), Ty::BV(2 * w + 3)));
        let n_writer_cases = cases.len();
        cases.extend(reader_only);
        for (ci, (name, text, want_ty)) in cases.into_iter().enumerate() {
            crate::panics::set_context(format!("C14 reader semantics of `{text}`"));
            let lenient = ci >= n_writer_cases;
            if lenient {
                if !accepted(name) {
                    rep.count("reader_only_spellings_not_in_reader_source", 1);
                    continue;
                }
                // an error is an acceptable answer for a form the writer never emits; a value must be right
                match crate::panics::guarded(|| parse_expr(&mut ctx, &st, text.as_bytes())) {
                    Ok(Ok(_)) => {}
                    Ok(Err(_)) => {
                        rep.count("reader_only_forms_rejected_with_error", 1);
                        continue;
                    }
                    Err((loc, msg)) => {
                        if msg.contains("not yet implemented") || msg.contains("not implemented") {
                            rep.count("reader_only_forms_todo", 1);
                        } else {
                            rep.count("obligations", 1);
                            rep.violation(Role::new(SITE_READER, name, &format!("reader-only;panic@{loc}")), format!("reader panics on `{text}`: {msg}"), json!({"part": "reader-semantics", "text": text, "width": w}));
                        }
                        continue;
                    }
                }
            } else if !emitted(name) {
                rep.count("operator_spellings_not_found_in_writer_source", 1);
                continue;
            }
            rep.count("obligations", 1);
            rep.count("reader_semantics_terms", 1);
            let replay = json!({"part": "reader-semantics", "text": text, "width": w});
            let e3 = match crate::panics::guarded(|| parse_expr(&mut ctx, &st, text.as_bytes())) {
                Ok(Ok(e)) => e,
                Ok(Err(err)) => {
                    rep.violation(Role::new(SITE_READER, name, "rejected"), format!("`{text}` (a spelling the writer emits) is rejected by the reader: {err:?}"), replay);
                    continue;
                }
                Err((loc, msg)) => {
                    rep.violation(Role::new(SITE_READER, name, &format!("panic@{loc}")), format!("reader panics on `{text}`: {msg}"), replay);
                    continue;
                }
            };
            let (pre, rt, ty, cvc5_ok) = match c05::prelude_all(&ctx, e3, &all) {
                Ok(x) => x,
                Err(m) => {
                    rep.violation(Role::new(SITE_READER, name, "ill-typed"), format!("`{text}` is read as an ill-typed expression: {m}"), replay);
                    continue;
                }
            };
            if ty != want_ty {
                rep.violation(Role::new(SITE_READER, name, "type"), format!("`{text}` denotes a value of type {want_ty:?} but is read as {} of type {ty:?}", crate::c01::show(&ctx, e3)), replay);
                continue;
            }
            let q = format!("{pre}(assert (distinct {rt} {}))\n", c05::to_ref_pub(&text, want_ty));
            let mut ans = z3.check_once(&q);
            if !matches!(ans, Answer::Unsat | Answer::Sat) && cvc5_ok {
                ans = second.check_once(&q);
            }
            match ans {
                Answer::Unsat => rep.count("discharged", 1),
                Answer::Sat => {
                    rep.count("disagreements_checked", 1);
                    rep.violation(Role::new(SITE_READER, name, "value"), format!("`{text}` is read as {}, which the solver shows to differ from the text's own meaning (width {w})", crate::c01::show(&ctx, e3)), json!({"part": "reader-semantics", "text": text, "width": w, "smt2": q}));
                }
                other => rep.inconc(json!({"text": text, "why": format!("{other:?}"), "smt2": q})),
            }
        }
    }
    rep.count("solver_time_ms", z3.solver_time.as_millis() as u64 + second.solver_time.as_millis() as u64);
    rep.count("solver_queries", z3.queries + second.queries);
}

// ---------------------------------------------------------------------------------------------
// model values

fn real_sort(t: Ty) -> String {
    let b = |w: u32| if w == 1 { "Bool".to_string() } else { format!("(_ BitVec {w})") };
    match t {
        Ty::BV(w) => b(w),
        Ty::Arr(i, d) => format!("(Array {} {})", b(i), b(d)),
    }
}

fn real_bv(v: &BigUint, w: u32) -> String {
    if w == 1 { if v == &BigUint::from(0u32) { "false".into() } else { "true".into() } } else { bigeval::bv_smt(v, w) }
}

/// value in the sorts patronus declares (Bool for 1 bit)
fn real_value(v: &Val) -> String {
    match v {
        Val::BV(x, w) => real_bv(x, *w),
        Val::Arr { iw, dw, default, map } => {
            let mut s = format!("((as const {}) {})", real_sort(Ty::Arr(*iw, *dw)), real_bv(default, *dw));
            for (k, x) in map {
                s = format!("(store {s} {} {})", real_bv(k, *iw), real_bv(x, *dw));
            }
            s
        }
    }
}

pub fn reference_values(tier: Tier) -> Vec<Val> {
    let mut out = vec![];
    for w in [1u32, 2, 8, 64, 65, 128] {
        for v in crate::shapes::literal_classes(w).into_iter().take(tier.pick(8, 40)) {
            out.push(Val::BV(v, w));
        }
    }
    for (iw, dw) in [(2u32, 3u32), (1, 4), (2, 1), (1, 1), (3, 8)] {
        let ones = bigeval::mask(dw);
        let defaults = [BigUint::from(0u32), ones.clone()];
        for d in defaults.iter() {
            for cells in 0..=(1usize << iw).min(4) {
                let mut map = BTreeMap::new();
                for c in 0..cells {
                    let idx = BigUint::from(((c * 3 + 1) % (1usize << iw)) as u32);
                    let val = if c % 2 == 0 { &ones ^ d } else { BigUint::from((c as u32 + 1) % (1u32 << dw.min(8))) & &ones };
                    map.insert(idx, val);
                }
                out.push(Val::Arr { iw, dw, default: d.clone(), map });
            }
        }
    }
    out
}

/// tokenise an s-expression text into atoms and parentheses
fn tokens(s: &str) -> Vec<String> {
    let mut out = vec![];
    let mut cur = String::new();
    for c in s.chars() {
        if c == '(' || c == ')' {
            if !cur.is_empty() {
                out.push(std::mem::take(&mut cur));
            }
            out.push(c.to_string());
        } else if c.is_whitespace() {
            if !cur.is_empty() {
                out.push(std::mem::take(&mut cur));
            }
        } else {
            cur.push(c);
        }
    }
    if !cur.is_empty() {
        out.push(cur);
    }
    out
}

fn values_part(rep: &mut Report, tier: Tier) {
    use patronus::smt::{Solver, SolverContext};
    let vals = reference_values(tier);
    // raw responses from the solvers started with patronus' own arguments
    let z3_args: Vec<String> = ["pp.min_alias_size=4294967295", "pp.max_depth=4294967295"].iter().map(|s| s.to_string()).collect();
    let mut raw: Vec<(Which, Proc)> = vec![
        (Which::Z3, Proc::with_args(Which::Z3, 10_000, &z3_args)),
        (Which::Cvc5, Proc::with_args(Which::Cvc5, 10_000, &[])),
        (Which::Cvc5, Proc::with_args(Which::Cvc5, 10_000, &["--dag-thresh=1".to_string()])),
        (Which::Z3New, Proc::with_args(Which::Z3New, 10_000, &[])),
    ];
    let mut checker = Proc::new(Which::Z3New, 10_000);
    let mut ctx = Context::default();
    let mut forms: BTreeMap<String, u64> = BTreeMap::new();
    for (vi, c) in vals.iter().enumerate() {
        let ty = c.ty();
        for (which, p) in raw.iter_mut() {
            // cvc5 only accepts values under `as const`: our reference arrays are values, fine
            rep.count("obligations", 1);
            rep.count("value_forms_requested", 1);
            p.push();
            let body = format!("(declare-const x {})\n(assert (= x {}))", real_sort(ty), real_value(c));
            let a = p.check(&body);
            if a != Answer::Sat {
                p.pop();
                rep.inconc(json!({"value": c.show(), "solver": which.name(), "why": format!("setup query answered {a:?}")}));
                continue;
            }
            let lines = p.exchange("(get-value (x))");
            p.pop();
            let Some(lines) = lines else {
                rep.inconc(json!({"value": c.show(), "solver": which.name(), "why": "no response"}));
                continue;
            };
            let full_response = lines.join(" ");
            let parts = crate::solver::split_get_values(&full_response);
            if parts.len() != 1 {
                rep.inconc(json!({"value": c.show(), "solver": which.name(), "why": format!("unexpected response {full_response}")}));
                continue;
            }
            // the value part of `((x <value>))`; parse_get_value_response itself is not public and is
            // exercised through SmtLibSolverCtx::get_value below
            let response = parts[0].clone();
            let form = if response.contains("let") { "let" } else if response.contains("store") { "store" } else if response.contains("as const") { "as-const" } else if response.contains("lambda") { "lambda" } else if response.contains("#x") { "#x" } else if response.contains("#b") { "#b" } else { "true/false" };
            *forms.entry(format!("{}:{form}", which.name())).or_default() += 1;
            if form == "lambda" {
                // not one of the value forms the property lists (literals, true/false, stores over constant
                // arrays, let-bound sub-terms): outside the claim, only counted
                rep.count("value_forms_outside_claim_lambda", 1);
                rep.uncount("obligations", 1);
                continue;
            }
            let check_value = |rep: &mut Report, ctx: &mut Context, checker: &mut Proc, text: &str, malformed: bool| -> bool {
                let empty: FxHashMap<String, ExprRef> = FxHashMap::default();
                let parsed = crate::panics::guarded(|| parse_expr(ctx, &empty, text.as_bytes()));
                match parsed {
                    Err((loc, msg)) => {
                        if malformed {
                            rep.count("malformed_panics", 1);
                            rep.count(&format!("malformed_panic@{loc}"), 1);
                            if std::env::var("PVERIF_SHOWMAL").is_ok() {
                                eprintln!("MALPANIC {loc} :: {msg} :: {text}");
                            }
                            return true;
                        }
                        let known_todo = msg.contains("not yet implemented") || msg.contains("not implemented");
                        rep.violation(Role::new(SITE_VAL, which.name(), &format!("panic@{loc}")), format!("reader panicked ({msg}) on response `{text}` for value {}", c.show()),
                            json!({"part": "value", "value_index": vi, "response": text, "documented_todo": known_todo}));
                        false
                    }
                    Ok(Err(err)) => {
                        if malformed {
                            rep.count("malformed_rejected", 1);
                            return true;
                        }
                        rep.violation(Role::new(SITE_VAL, which.name(), &format!("error;{form}")), format!("reader rejects the solver's response `{text}` ({err:?}) for value {}", c.show()),
                            json!({"part": "value", "value_index": vi, "response": text}));
                        false
                    }
                    Ok(Ok(v)) => {
                        // the parsed expression must denote exactly c: ground miter against the reference value
                        let ok = match RefEnc::new(ctx, "v").enc(v) {
                            Err(_) => false,
                            Ok((_, t)) if t != ty => false,
                            Ok(_) => {
                                let mut r = RefEnc::new(ctx, "v");
                                let (term, _) = r.enc(v).unwrap();
                                let q = format!("{}{}(assert (distinct {term} {}))", r.decl_text(), r.defs, c.smt());
                                r.decls.is_empty() && checker.check_once(&q) == Answer::Unsat
                            }
                        };
                        let big_ok = bigeval::eval(ctx, &Default::default(), v).map(|x| bigeval::vals_equal(&x, c)).unwrap_or(false);
                        if ok != big_ok {
                            rep.undecided.push(format!("ENCODING-ERROR: solver and big-integer evaluator disagree on parsed value of `{text}`"));
                        }
                        if !ok {
                            let kind = if malformed { "malformed-accepted-with-wrong-value" } else { "wrong-value" };
                            rep.count("disagreements_checked", 1);
                            rep.violation(Role::new(SITE_VAL, which.name(), &format!("{kind};{form}")),
                                format!("response `{text}` ({}) is read as {} but denotes {}", if malformed { "malformed variant" } else { "as printed by the solver" }, crate::c01::show(ctx, v), c.show()),
                                json!({"part": "value", "value_index": vi, "response": text, "malformed": malformed, "read_as": crate::c01::show(ctx, v), "denotes": c.show()}));
                        } else if malformed {
                            rep.count("malformed_accepted_with_right_value", 1);
                        }
                        ok
                    }
                }
            };
            if check_value(rep, &mut ctx, &mut checker, &response, false) {
                rep.count("discharged", 1);
                if vi % 17 == 0 {
                    rep.sample(json!({"part": "value", "solver": which.name(), "value": c.show(), "response": response}), 16);
                }
            }
            // malformed variants: prefixes at token boundaries and single-atom deletions
            let toks = tokens(&response);
            let mut variants: Vec<String> = vec![];
            for cut in 1..toks.len() {
                variants.push(toks[..cut].join(" "));
            }
            for del in 0..toks.len() {
                if toks[del] != "(" && toks[del] != ")" {
                    let mut t = toks.clone();
                    t.remove(del);
                    variants.push(t.join(" "));
                }
            }
            // truncated literals (a shorter literal is a different, well-formed value: not malformed) are not generated
            let step = tier.pick((variants.len() / 12).max(1), 1);
            for (k, v) in variants.iter().enumerate() {
                if k % step != 0 {
                    continue;
                }
                rep.count("obligations", 1);
                rep.count("malformed_variants", 1);
                if check_value(rep, &mut ctx, &mut checker, v, true) {
                    rep.count("discharged", 1);
                }
            }
        }
    }
    rep.extra.insert("value_forms_seen".into(), json!(forms));
    // the real process path: SmtLibSolverCtx::get_value
    for (name, solver) in [("z3", patronus::smt::Z3), ("cvc5", patronus::smt::CVC5)] {
        let started = solver.start(None);
        let Ok(mut s) = started else {
            rep.undecided.push(format!("cannot start {name} through patronus::smt"));
            continue;
        };
        for (vi, c) in vals.iter().enumerate().filter(|(i, _)| i % tier.pick(5, 1) == 0) {
            rep.count("obligations", 1);
            let r = crate::panics::guarded(|| -> Result<ExprRef, String> {
                let x = match c.ty() {
                    Ty::BV(w) => ctx.bv_symbol(&format!("x{vi}"), w),
                    Ty::Arr(i, d) => ctx.array_symbol(&format!("x{vi}"), i, d),
                };
                let lit = ctx.lit(miter::to_baa(c));
                let eq = ctx.equal(x, lit);
                s.push().map_err(|e| format!("{e:?}"))?;
                s.declare_const(&ctx, x).map_err(|e| format!("{e:?}"))?;
                s.assert(&ctx, eq).map_err(|e| format!("{e:?}"))?;
                let r = s.check_sat().map_err(|e| format!("{e:?}"))?;
                if r != patronus::smt::CheckSatResponse::Sat {
                    return Err(format!("setup not sat: {r:?}"));
                }
                let v = s.get_value(&mut ctx, x).map_err(|e| format!("get_value: {e:?}"))?;
                s.pop().map_err(|e| format!("{e:?}"))?;
                Ok(v)
            });
            match r {
                Ok(Ok(v)) => {
                    let got = bigeval::eval(&ctx, &Default::default(), v);
                    if got.as_ref().map(|g| bigeval::vals_equal(g, c)).unwrap_or(false) {
                        rep.count("discharged", 1);
                        rep.count("live_get_value_ok", 1);
                    } else {
                        rep.violation(Role::new(SITE_VAL, name, "live-get-value;wrong-value"), format!("SmtLibSolverCtx::get_value returned {} for a symbol constrained to {}", crate::c01::show(&ctx, v), c.show()), json!({"part": "live-value", "value_index": vi}));
                    }
                }
                Ok(Err(e)) if name == "z3" && matches!(c, Val::Arr { dw: 1, .. }) && e.contains("Pattern") => {
                    // z3 4.8.12 prints Bool-valued arrays as (lambda ...): outside the claim (see above)
                    rep.count("value_forms_outside_claim_lambda", 1);
                    rep.uncount("obligations", 1);
                    let _ = s.restart();
                }
                Ok(Err(e)) => {
                    rep.violation(Role::new(SITE_VAL, name, "live-get-value;error"), format!("live get_value failed for {}: {e}", c.show()), json!({"part": "live-value", "value_index": vi, "error": e}));
                    let _ = s.restart();
                }
                Err((loc, msg)) => {
                    rep.violation(Role::new(SITE_VAL, name, &format!("live-get-value;panic@{loc}")), format!("live get_value panicked for {}: {msg}", c.show()), json!({"part": "live-value", "value_index": vi}));
                    let _ = s.restart();
                }
            }
        }
    }
}

pub fn run(tier: Tier, seed: u64, replay: Option<serde_json::Value>) -> i32 {
    let mut rep = Report::new("C14", tier, seed, "translation_validation");
    let mut only_part: Option<String> = None;
    let mut base_override = None;
    let instances: Vec<Sh> = match &replay {
        Some(r) => {
            rep.write_files = false;
            only_part = r["replay"]["part"].as_str().map(|s| s.to_string());
            base_override = r["replay"]["name_class"].as_u64().map(|x| x as usize);
            match Sh::from_json(&r["replay"]["shape"]) {
                Some(s) => vec![s],
                None => vec![],
            }
        }
        None => c05::generate(tier, seed),
    };
    let chunks: Vec<(usize, &[Sh])> = instances.chunks(400).enumerate().collect();
    let parts: Vec<Report> = chunks
        .par_iter()
        .map(|(ci, chunk)| {
            let mut r = Report::new("C14", tier, seed, "translation_validation");
            round_trip_chunk(&mut r, chunk, base_override.unwrap_or(ci * 400));
            r
        })
        .collect();
    for p in parts {
        rep.merge(p);
    }
    if only_part.as_deref().map(|p| p.contains("value")).unwrap_or(true) {
        values_part(&mut rep, tier);
    }
    if only_part.is_none() || only_part.as_deref() == Some("reader-semantics") {
        reader_semantics_part(&mut rep);
    }
    if only_part.is_none() || only_part.as_deref() == Some("stream") {
        let all;
        let (inst, only): (&[Sh], Option<(usize, usize)>) = match &replay {
            Some(r) => {
                all = c05::generate(tier, seed);
                let p = &r["replay"]["pair"];
                (&all, Some((p[0].as_u64().unwrap_or(0) as usize, p[1].as_u64().unwrap_or(1) as usize)))
            }
            None => (&instances, None),
        };
        stream_part(&mut rep, inst, tier, seed, only);
    }
    rep.extra.insert("bounds".into(), json!({"expressions": "the shapes of C05 (widths 1, 2, 8, 65; depth <= 2 exhaustive, seeded deeper)", "value_sorts": ["Bool", "bv2", "bv8", "bv64", "bv65", "bv128", "Array bv2 bv3", "Array Bool bv4", "Array bv2 Bool", "Array Bool Bool", "Array bv3 bv8"],
        "value_sources": ["z3 4.8.12 with patronus' arguments", "cvc5 1.0", "cvc5 --dag-thresh=1 (let-bound sub-terms)", "z3 5.1"], "malformed": "token-boundary prefixes and single-atom deletions of every solver response"}));
    rep.extra.insert("functions_encoded".into(), json!(["smt::parse_expr", "smt::parse_command", "smt::read_command", "smt::parse_get_value_response", "SmtLibSolverCtx::get_value", "smt::serialize_cmd"]));
    rep.extra.insert("outside_claim".into(), json!(["the lexer on arbitrary bytes", "get-unsat-assumptions responses (exercised through pdr in C10)"]));
    rep.assumptions = vec!["RefSmt is the SMT-LIB reading of Expr".into(), "solvers print model values in standard syntax".into()];
    rep.finish()
}
