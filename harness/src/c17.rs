//! C17 — the cone of influence is sufficient and syntactically tight.
//! Real code: system::analysis::{cone_of_influence, cone_of_influence_init, cone_of_influence_comb}.
//! Sufficiency is a 2-safety property decided by self-composition (two copies of RefUnroll).

use crate::refsmt::{Op, RefEnc, decompose};
use crate::refunroll::RefUnroll;
use crate::report::{Report, Role, Tier};
use crate::solver::{Answer, Proc, Which};
use crate::sysgen::{self, GenCfg, SysSpec};
use patronus::expr::{Context, ExprRef};
use patronus::system::TransitionSystem;
use patronus::system::analysis::{cone_of_influence, cone_of_influence_comb, cone_of_influence_init};
use rayon::prelude::*;
use serde_json::json;
use std::collections::{HashMap, HashSet};

pub const SITE: &str = "system::analysis::cone_of_influence{,_init,_comb}";

pub fn gen_cfg() -> GenCfg {
    GenCfg { max_states: 4, max_inputs: 3, max_width: 4, arrays: true, max_depth: 2, div: false, max_state_bits: 14, total: false }
}

pub fn spec_for(seed: u64, index: u64) -> SysSpec {
    let mut spec = sysgen::generate(seed, "C17", index, &gen_cfg());
    // chains of states so that states are reached late in the traversal, only through init, only through next
    if index % 3 == 0 && spec.states.len() >= 2 {
        use crate::shapes::Sh;
        let n = spec.states.len();
        for i in 1..n {
            let (pt, ct) = (spec.states[i - 1].ty, spec.states[i].ty);
            if let (crate::refsmt::Ty::BV(pw), crate::refsmt::Ty::BV(cw)) = (pt, ct) {
                let prev = Sh::Sym(sysgen::STATE_BASE + (i - 1) as u8, pt);
                let adapted = if pw == cw { prev } else if pw < cw { Sh::Op(Op::ZeroExt, [cw - pw, 0], vec![prev]) } else { Sh::Op(Op::Slice, [cw - 1, 0], vec![prev]) };
                match (index / 3 + i as u64) % 3 {
                    0 => spec.states[i].init = Some(adapted),
                    1 => spec.states[i].next = Some(adapted),
                    _ => {
                        spec.states[i].init = Some(adapted.clone());
                        spec.states[i].next = Some(Sh::Sym(sysgen::STATE_BASE + i as u8, ct));
                    }
                }
            }
        }
    }
    // array-typed inputs (read, exported, written by a named store node)
    if index % 4 == 1 {
        sysgen::add_array_io(&mut spec, index / 4);
    }
    spec
}

#[derive(Clone, Copy, PartialEq, Eq, Debug)]
enum Variant {
    Full,
    Init,
    Comb,
}

impl Variant {
    fn name(self) -> &'static str {
        match self {
            Variant::Full => "full",
            Variant::Init => "init",
            Variant::Comb => "comb",
        }
    }
}

/// the harness's own dependency-graph reachability (children, plus init/next links per variant)
fn reach(ctx: &Context, sys: &TransitionSystem, root: ExprRef, v: Variant) -> HashSet<ExprRef> {
    let states: HashMap<ExprRef, &patronus::system::State> = sys.states.iter().map(|s| (s.symbol, s)).collect();
    let mut seen = HashSet::new();
    let mut todo = vec![root];
    while let Some(e) = todo.pop() {
        if !seen.insert(e) {
            continue;
        }
        todo.extend(decompose(&ctx[e]).kids);
        if let Some(s) = states.get(&e) {
            if v != Variant::Comb {
                todo.extend(s.init);
            }
            if v == Variant::Full {
                todo.extend(s.next);
            }
        }
    }
    seen
}

fn eqs(a: &[String], b: &[String]) -> String {
    if a.is_empty() { "true".into() } else { format!("(and true {})", a.iter().zip(b.iter()).map(|(x, y)| format!("(= {x} {y})")).collect::<Vec<_>>().join(" ")) }
}

struct Two<'a> {
    a: RefUnroll<'a>,
    b: RefUnroll<'a>,
    text: String,
}

fn two_copies<'a>(ctx: &'a Context, sys: &'a TransitionSystem, root: ExprRef, apply_init: bool, steps: usize) -> Result<Two<'a>, String> {
    let mut a = RefUnroll::new(ctx, sys, "A!").map_err(|e| e.0)?;
    let mut b = RefUnroll::new(ctx, sys, "B!").map_err(|e| e.0)?;
    a.apply_init = apply_init;
    b.apply_init = apply_init;
    a.extra_roots = vec![root];
    b.extra_roots = vec![root];
    let mut text = String::new();
    for _ in 0..steps {
        text.push_str(&a.step().map_err(|e| e.0)?);
        text.push_str(&b.step().map_err(|e| e.0)?);
    }
    Ok(Two { a, b, text })
}

fn check_root(rep: &mut Report, z3: &mut Proc, ctx: &Context, sys: &TransitionSystem, spec: &SysSpec, index: u64, root: ExprRef, root_name: &str) {
    let state_idx: HashMap<ExprRef, usize> = sys.states.iter().enumerate().map(|(i, s)| (s.symbol, i)).collect();
    let input_idx: HashMap<ExprRef, usize> = sys.inputs.iter().enumerate().map(|(i, s)| (*s, i)).collect();
    for v in [Variant::Full, Variant::Init, Variant::Comb] {
        let cone = match crate::panics::guarded(|| match v {
            Variant::Full => cone_of_influence(ctx, sys, root),
            Variant::Init => cone_of_influence_init(ctx, sys, root),
            Variant::Comb => cone_of_influence_comb(ctx, sys, root),
        }) {
            Ok(c) => c,
            Err((loc, msg)) => {
                rep.count("obligations", 1);
                rep.violation(Role::new(SITE, v.name(), &format!("panic@{loc}")), format!("system #{index}: cone_of_influence ({}) panicked on root {root_name}: {msg}", v.name()), json!({"system": {"index": index, "text": spec.show()}, "root": root_name}));
                continue;
            }
        };
        let names = |c: &[ExprRef]| c.iter().map(|e| ctx.get_symbol_name(*e).unwrap_or("?").to_string()).collect::<Vec<_>>();
        let replay = json!({"system": {"index": index, "text": spec.show()}, "root": root_name, "variant": v.name(), "cone": names(&cone)});
        // ---- syntactic clauses (graph computation, side condition)
        rep.count("obligations", 1);
        let r = reach(ctx, sys, root, v);
        let mut problem = None;
        for c in cone.iter() {
            if !state_idx.contains_key(c) && !input_idx.contains_key(c) {
                problem = Some(format!("`{}` is neither an input nor a state of the system", ctx.get_symbol_name(*c).unwrap_or("?")));
            } else if !r.contains(c) {
                problem = Some(format!("`{}` is not syntactically reachable from the root through the {} links", ctx.get_symbol_name(*c).unwrap_or("?"), v.name()));
            }
        }
        if let Some(p) = problem {
            rep.violation(Role::new(SITE, v.name(), "not-tight"), format!("system #{index} root {root_name} ({}): cone {:?}: {p}", v.name(), names(&cone)), replay.clone());
            continue;
        }
        rep.count("discharged", 1);
        // ---- sufficiency
        let cs: Vec<usize> = cone.iter().filter_map(|c| state_idx.get(c).copied()).collect();
        let ci: Vec<usize> = cone.iter().filter_map(|c| input_idx.get(c).copied()).collect();
        let mut queries: Vec<(&'static str, String)> = vec![];
        match v {
            Variant::Comb => {
                // one valuation per copy
                let mut text = String::new();
                let mut terms = vec![];
                for p in ["A!", "B!"] {
                    let mut r = RefEnc::new(ctx, &format!("{p}n"));
                    r.sym_prefix = format!("{p}s!");
                    match r.enc(root) {
                        Ok((t, _)) => {
                            // declare every input/state so that the cone links are well-defined
                            for s in sys.states.iter().map(|s| s.symbol).chain(sys.inputs.iter().copied()) {
                                let _ = r.enc(s);
                            }
                            text.push_str(&r.decl_text());
                            text.push_str(&r.defs);
                            terms.push(t);
                        }
                        Err(e) => {
                            rep.undecided.push(format!("RefSmt failed: {}", e.0));
                            return;
                        }
                    }
                }
                let link: Vec<String> = cone.iter().map(|c| format!("(= A!s!{0} B!s!{0})", usize::from(*c))).collect();
                queries.push(("comb", format!("{text}(assert (and true {}))\n(assert (distinct {} {}))\n", link.join(" "), terms[0], terms[1])));
            }
            Variant::Init | Variant::Full => {
                let t = match two_copies(ctx, sys, root, true, 1) {
                    Ok(t) => t,
                    Err(e) => {
                        rep.undecided.push(format!("RefUnroll failed: {e}"));
                        return;
                    }
                };
                let free: Vec<usize> = cs.iter().copied().filter(|i| sys.states[*i].init.is_none()).collect();
                let assume = format!(
                    "(and {} {})",
                    eqs(&ci.iter().map(|j| t.a.inp(*j, 0)).collect::<Vec<_>>(), &ci.iter().map(|j| t.b.inp(*j, 0)).collect::<Vec<_>>()),
                    eqs(&free.iter().map(|i| t.a.st(*i, 0)).collect::<Vec<_>>(), &free.iter().map(|i| t.b.st(*i, 0)).collect::<Vec<_>>())
                );
                let root_eq = format!("(= {} {})", t.a.extras[0][0], t.b.extras[0][0]);
                if v == Variant::Init {
                    queries.push(("init", format!("{}(assert {assume})\n(assert (not {root_eq}))\n", t.text)));
                } else {
                    let all_eq = eqs(&cs.iter().map(|i| t.a.st(*i, 0)).collect::<Vec<_>>(), &cs.iter().map(|i| t.b.st(*i, 0)).collect::<Vec<_>>());
                    queries.push(("full-base", format!("{}(assert {assume})\n(assert (not (and {all_eq} {root_eq})))\n", t.text)));
                    // inductive step from an arbitrary pair of states
                    let s = match two_copies(ctx, sys, root, false, 2) {
                        Ok(t) => t,
                        Err(e) => {
                            rep.undecided.push(format!("RefUnroll failed: {e}"));
                            return;
                        }
                    };
                    let nextless: Vec<usize> = cs.iter().copied().filter(|i| sys.states[*i].next.is_none()).collect();
                    let assume = format!(
                        "(and {} {} {})",
                        eqs(&cs.iter().map(|i| s.a.st(*i, 0)).collect::<Vec<_>>(), &cs.iter().map(|i| s.b.st(*i, 0)).collect::<Vec<_>>()),
                        eqs(&ci.iter().map(|j| s.a.inp(*j, 0)).collect::<Vec<_>>(), &ci.iter().map(|j| s.b.inp(*j, 0)).collect::<Vec<_>>()),
                        eqs(&nextless.iter().map(|i| s.a.st(*i, 1)).collect::<Vec<_>>(), &nextless.iter().map(|i| s.b.st(*i, 1)).collect::<Vec<_>>())
                    );
                    let concl = format!(
                        "(and {} (= {} {}))",
                        eqs(&cs.iter().map(|i| s.a.st(*i, 1)).collect::<Vec<_>>(), &cs.iter().map(|i| s.b.st(*i, 1)).collect::<Vec<_>>()),
                        s.a.extras[0][0],
                        s.b.extras[0][0]
                    );
                    queries.push(("full-step", format!("{}(assert {assume})\n(assert (not {concl}))\n", s.text)));
                }
            }
        }
        for (qname, q) in queries {
            rep.count("obligations", 1);
            match z3.check_once(&q) {
                Answer::Unsat => {
                    rep.count("discharged", 1);
                    if rep.get("discharged") % 1499 == 1 {
                        rep.sample(json!({"system": spec.show(), "root": root_name, "variant": v.name(), "cone": names(&cone), "query": qname, "answer": "unsat"}), 10);
                    }
                }
                Answer::Sat => {
                    if qname == "full-step" || qname == "full-base" {
                        // confirm with a bounded two-copy unrolling from the initial states
                        let depth = 2 * sys.states.len() + 2;
                        let confirmed = (|| -> Result<Answer, String> {
                            let t = two_copies(ctx, sys, root, true, depth + 1)?;
                            let mut assume = vec![];
                            for k in 0..=depth {
                                for j in ci.iter() {
                                    assume.push(format!("(= {} {})", t.a.inp(*j, k), t.b.inp(*j, k)));
                                }
                                for i in cs.iter() {
                                    let free = if k == 0 { sys.states[*i].init.is_none() } else { sys.states[*i].next.is_none() };
                                    if free {
                                        assume.push(format!("(= {} {})", t.a.st(*i, k), t.b.st(*i, k)));
                                    }
                                }
                            }
                            let differs: Vec<String> = (0..=depth).map(|k| format!("(distinct {} {})", t.a.extras[k][0], t.b.extras[k][0])).collect();
                            Ok(z3.check_once(&format!("{}(assert (and true {}))\n(assert (or false {}))\n", t.text, assume.join(" "), differs.join(" "))))
                        })();
                        match confirmed {
                            Ok(Answer::Sat) => {
                                rep.count("disagreements_checked", 1);
                                rep.violation(Role::new(SITE, v.name(), "insufficient"), format!("system #{index} root {root_name} (full): two executions that agree on the cone {:?} (inputs at every step, free states) give the root different values within {depth} steps", names(&cone)), replay.clone());
                            }
                            Ok(Answer::Unsat) => {
                                rep.count("inductive_query_sat_but_no_pair_of_real_executions", 1);
                                rep.inconc(json!({"system": index, "root": root_name, "why": "inductive query sat, bounded two-copy unrolling unsat (dependency only visible from unreachable states)"}));
                            }
                            other => rep.inconc(json!({"system": index, "root": root_name, "why": format!("{other:?}")})),
                        }
                    } else {
                        rep.count("disagreements_checked", 1);
                        rep.violation(Role::new(SITE, v.name(), "insufficient"), format!("system #{index} root {root_name} ({}): two valuations that agree on the cone {:?} give the root different values", v.name(), names(&cone)), replay.clone());
                    }
                }
                Answer::Error(m) => rep.undecided.push(format!("ENCODING-ERROR in C17 query {qname}: {m}")),
                other => rep.inconc(json!({"system": index, "root": root_name, "why": other.short()})),
            }
        }
    }
}

pub fn run(tier: Tier, seed: u64, replay: Option<serde_json::Value>) -> i32 {
    let mut rep = Report::new("C17", tier, seed, "translation_validation");
    let n = tier.pick(500u64, 8000u64);
    let mut indices: Vec<u64> = (0..n).collect();
    if let Some(r) = &replay {
        rep.write_files = false;
        indices = r["replay"]["system"]["index"].as_u64().map(|i| vec![i]).unwrap_or_default();
    }
    let parts: Vec<Report> = indices
        .par_chunks(16)
        .map(|chunk| {
            let mut r = Report::new("C17", tier, seed, "translation_validation");
            let mut z3 = Proc::new(Which::Z3New, 10_000);
            for &i in chunk {
                let spec = spec_for(seed, i);
                let mut ctx = Context::default();
                let sys = spec.build(&mut ctx);
                r.count("programs", 1);
                let mut roots: Vec<(ExprRef, String)> = vec![];
                for (k, s) in sys.states.iter().enumerate() {
                    roots.push((s.symbol, format!("state[{k}]")));
                    if let Some(n) = s.next {
                        roots.push((n, format!("next[{k}]")));
                    }
                    if let Some(n) = s.init {
                        roots.push((n, format!("init[{k}]")));
                    }
                }
                for (k, b) in sys.bad_states.iter().enumerate() {
                    roots.push((*b, format!("bad[{k}]")));
                }
                for (k, b) in sys.constraints.iter().enumerate() {
                    roots.push((*b, format!("constraint[{k}]")));
                }
                for (k, o) in sys.outputs.iter().enumerate() {
                    roots.push((o.expr, format!("output[{k}]")));
                }
                let mut seen = HashSet::new();
                for (root, name) in roots {
                    if seen.insert(root) {
                        check_root(&mut r, &mut z3, &ctx, &sys, &spec, i, root, &name);
                    }
                }
            }
            r.count("solver_time_ms", z3.solver_time.as_millis() as u64);
            r.count("solver_queries", z3.queries);
            r
        })
        .collect();
    for p in parts {
        rep.merge(p);
    }
    rep.extra.insert("bounds".into(), json!({"generated_systems": n, "patterns": sysgen::PATTERNS, "extra": "every third system: chains of states linked through init only / next only / init + hold", "roots": "every state symbol, init, next, bad, constraint and output expression",
        "variants": ["full (inductive self-composition: base + step)", "init (one step with init applied)", "comb (one valuation)"]}));
    rep.extra.insert("functions_encoded".into(), json!(["cone_of_influence", "cone_of_influence_init", "cone_of_influence_comb"]));
    rep.extra.insert("outside_claim".into(), json!(["systems beyond the grammar's size", "tightness is a syntactic graph computation by the harness (side condition), not a solver query"]));
    rep.assumptions = vec!["RefUnroll states the btor2 execution semantics".into(), "base + step unsat => for all pairs of executions of any length that agree on the cone the root agrees (induction)".into()];
    rep.finish()
}
