//! SplitMix64 – deterministic PRNG keyed by (VERIF_SEED, property, instance index).

#[derive(Clone)]
pub struct Rng(u64);

impl Rng {
    pub fn new(seed: u64, stream: &str, index: u64) -> Self {
        let mut h: u64 = 0xcbf29ce484222325;
        for b in stream.bytes() {
            h ^= b as u64;
            h = h.wrapping_mul(0x100000001b3);
        }
        let mut r = Rng(seed
            .wrapping_mul(0x9E3779B97F4A7C15)
            .wrapping_add(h)
            .wrapping_add(index.wrapping_mul(0xD1342543DE82EF95)));
        r.next();
        r.next();
        r
    }
    pub fn next(&mut self) -> u64 {
        self.0 = self.0.wrapping_add(0x9E3779B97F4A7C15);
        let mut z = self.0;
        z = (z ^ (z >> 30)).wrapping_mul(0xBF58476D1CE4E5B9);
        z = (z ^ (z >> 27)).wrapping_mul(0x94D049BB133111EB);
        z ^ (z >> 31)
    }
    pub fn below(&mut self, n: usize) -> usize {
        debug_assert!(n > 0);
        (self.next() % (n as u64)) as usize
    }
    pub fn range(&mut self, lo: u32, hi_incl: u32) -> u32 {
        lo + (self.next() % ((hi_incl - lo + 1) as u64)) as u32
    }
    pub fn chance(&mut self, num: u32, den: u32) -> bool {
        (self.next() % den as u64) < num as u64
    }
    pub fn pick<'a, T>(&mut self, xs: &'a [T]) -> &'a T {
        &xs[self.below(xs.len())]
    }
}

pub fn seed_from_env() -> u64 {
    std::env::var("VERIF_SEED")
        .ok()
        .and_then(|s| s.trim().parse::<i64>().ok())
        .map(|v| v as u64)
        .unwrap_or(1)
}
