//! C06 — concrete evaluation follows SMT-LIB bit-vector and array semantics.
//! Three parts (reported separately in the evidence):
//!  K  kernels   – Kani/CBMC harnesses over the baa calls that eval.rs makes (all operand values),
//!                 run by ./check through `cargo kani` in /verif/kani (see kani_runner.py);
//!  D  dispatch  – the un_op/bin_op arms of eval_expr_internal are extracted from the current
//!                 source with syn, executed over SMT terms and proved equal to RefSmt for all
//!                 symbol values;
//!  V  validation– the real eval_expr / eval_bv_expr / eval_array_expr (three symbol stores,
//!                 short-circuit values) against the big-integer reference on boundary vectors.

use crate::bigeval::{self, Val};
use crate::miter;
use crate::refsmt::{Op, RefEnc, Ty, decompose};
use crate::report::{Report, Role, Tier};
use crate::rng::Rng;
use crate::shapes::{self, LeafMode, RandCfg, Sh};
use crate::solver::{Answer, Proc, Which};
use baa::{ArrayOps, BitVecOps};
use num_bigint::BigUint;
use patronus::expr::{Context, ExprRef, SymbolValueStore, eval_array_expr, eval_bv_expr, eval_expr};
use quote::ToTokens;
use rayon::prelude::*;
use serde_json::json;
use std::collections::HashMap;
use syn::visit::Visit;

pub const SITE_V: &str = "expr::eval_expr / eval_bv_expr / eval_array_expr (boundary-vector validation)";
pub const SITE_D: &str = "expr::eval::eval_expr_internal dispatch (source-derived encoding)";

/// operators outside the claim: the five division/remainder operators (documented unimplemented) and
/// multiplication wider than 128 bits (baa 0.19.3: todo!())
fn has_div(s: &Sh) -> bool {
    match s {
        Sh::Op(op, _, k) => {
            matches!(op, Op::Sdiv | Op::Udiv | Op::Smod | Op::Srem | Op::Urem)
                || (*op == Op::Mul && s.ty().bv().unwrap_or(0) > 128)
                || k.iter().any(has_div)
        }
        _ => false,
    }
}

pub fn widths(tier: Tier) -> Vec<u32> {
    tier.pick(vec![1, 2, 8, 33, 64, 65, 128, 129], vec![1, 2, 3, 5, 8, 31, 32, 33, 63, 64, 65, 127, 128, 129])
}

fn gen_shapes(tier: Tier, seed: u64) -> Vec<Sh> {
    gen_shapes_opt(tier, seed, true)
}

fn gen_shapes_opt(tier: Tier, seed: u64, with_random: bool) -> Vec<Sh> {
    let mut out = vec![];
    for &w in widths(tier).iter() {
        let mut sigs = shapes::signatures(Ty::BV(w), w, false);
        if w != 1 {
            sigs.extend(shapes::signatures(Ty::BV(1), w, false).into_iter().filter(|s| matches!(s.op, Op::Equal | Op::Ugt | Op::Sgt | Op::Uge | Op::Sge | Op::ArrayEqual)));
        }
        for iw in [1u32, 2] {
            sigs.extend(shapes::signatures(Ty::Arr(iw, w.min(65)), w, false));
        }
        for sig in sigs.iter() {
            out.extend(shapes::depth1(sig, LeafMode::Full));
        }
    }
    for &w in [1u32, 8, 65].iter() {
        let mut sigs = shapes::signatures(Ty::BV(w), w, false);
        sigs.extend(shapes::signatures(Ty::Arr(2, w.min(33)), w, false));
        for sig in sigs.iter() {
            out.extend(shapes::depth2_with(sig, w, false, LeafMode::Minimal));
        }
    }
    let n = if with_random { tier.pick(3000usize, 40000usize) } else { 0 };
    let cfg = RandCfg { max_depth: 4, div: false, widths: vec![1, 2, 8, 33, 64, 65, 128, 129] };
    for i in 0..n {
        let mut rng = Rng::new(seed, "C06-dag", i as u64);
        let w = *rng.pick(&cfg.widths);
        let t = if rng.chance(1, 8) { Ty::Arr(rng.range(1, 2), w.min(33)) } else { Ty::BV(w) };
        let d = rng.range(2, 4) as usize;
        let mut pool = vec![];
        out.push(shapes::random_shape(&mut rng, t, d, &cfg, &mut pool));
    }
    out.retain(|s| !has_div(s));
    out
}

fn sym_value(rng: &mut Rng, t: Ty) -> Val {
    match t {
        Ty::BV(w) => Val::BV(shapes::random_lit(rng, w), w),
        Ty::Arr(iw, dw) => {
            let mut map = std::collections::BTreeMap::new();
            let n = rng.below((1usize << iw) + 1);
            for _ in 0..n {
                map.insert(BigUint::from(rng.below(1 << iw) as u32), shapes::random_lit(rng, dw));
            }
            Val::Arr { iw, dw, default: shapes::random_lit(rng, dw), map }
        }
    }
}

fn real_to_val(v: &baa::Value) -> Val {
    match v {
        baa::Value::BitVec(b) => Val::BV(crate::witness::bv_to_big(b), b.width()),
        baa::Value::Array(a) => {
            let (iw, dw) = (a.index_width(), a.data_width());
            let mut map = std::collections::BTreeMap::new();
            for i in 0..(1u64 << iw.min(10)) {
                let d = a.select(&baa::BitVecValue::from_u64(i, iw));
                map.insert(BigUint::from(i), crate::witness::bv_to_big(&d));
            }
            Val::Arr { iw, dw, default: BigUint::from(0u32), map }.normalize()
        }
    }
}

fn classify(ctx: &Context, e: ExprRef, env: &HashMap<ExprRef, Val>) -> (String, String) {
    let n = decompose(&ctx[e]);
    let w = n.kids.first().and_then(|k| RefEnc::type_of(ctx, *k).ok()).and_then(|t| t.bv()).or(RefEnc::type_of(ctx, e).ok().and_then(|t| t.bv())).unwrap_or(0);
    let mut parts = vec![if w > 128 { "w>128" } else if w > 64 { "64<w<=128" } else { "w<=64" }.to_string()];
    if matches!(n.op, Op::Shl | Op::Lshr | Op::Ashr) {
        if let Ok(Val::BV(v, _)) = bigeval::eval(ctx, env, n.kids[1]) {
            let c = if v >= shapes::pow2(32) {
                "amt>=2^32"
            } else if v >= BigUint::from(w) {
                "w<=amt<2^32"
            } else if !v.is_zero_big() && (&v % 64u32).is_zero_big() {
                "amt%64==0"
            } else {
                "amt<w"
            };
            parts.push(c.into());
            if w % 64 != 0 {
                parts.push("w%64!=0".into());
            }
        }
    }
    if n.op == Op::ArrayEqual {
        // the recorded finding of the dependency is "arrays that are equal at every index compare unequal (different
        // defaults)"; the other direction - unequal arrays reported equal - is a different violation
        match bigeval::eval(ctx, env, e) {
            Ok(Val::BV(v, _)) if v.is_zero_big() => parts.push("array-equality:unequal-arrays-reported-equal".into()),
            _ => parts.push("array-equality".into()),
        }
    }
    (n.op.name().to_string(), parts.join(";"))
}

trait IsZeroBig {
    fn is_zero_big(&self) -> bool;
}
impl IsZeroBig for BigUint {
    fn is_zero_big(&self) -> bool {
        *self == BigUint::from(0u32)
    }
}

fn post_order(ctx: &Context, e: ExprRef, seen: &mut std::collections::HashSet<ExprRef>, out: &mut Vec<ExprRef>) {
    if !seen.insert(e) {
        return;
    }
    for k in decompose(&ctx[e]).kids {
        post_order(ctx, k, seen, out);
    }
    out.push(e);
}

/// find the smallest sub-expression on which the real evaluator is already wrong: the first node in
/// post-order (so all of its descendants are right) whose value differs, is not canonical, or panics.
/// Arrays holding dirty words are not visible as a wrong *array* value, hence all descendants are
/// inspected, not only the chain of wrong children.
fn minimize(ctx: &Context, env: &HashMap<ExprRef, Val>, model: &miter::Model, e: ExprRef) -> ExprRef {
    minimize_excluding(ctx, env, model, e, None)
}

/// `exclude`: a node whose sub-tree is not evaluated (its value is supplied by the store)
fn minimize_excluding(ctx: &Context, env: &HashMap<ExprRef, Val>, model: &miter::Model, e: ExprRef, exclude: Option<ExprRef>) -> ExprRef {
    let mut order = vec![];
    post_order(ctx, e, &mut Default::default(), &mut order);
    let mut skip = vec![];
    if let Some(x) = exclude {
        post_order(ctx, x, &mut Default::default(), &mut skip);
    }
    for k in order {
        if k == e {
            break;
        }
        if skip.contains(&k) {
            continue;
        }
        let want = bigeval::eval(ctx, env, k);
        let got = crate::panics::guarded(|| real_eval_val(ctx, model, k));
        match (want, got) {
            (Ok(want), Ok(Some(got))) => {
                let canonical = match &want {
                    Val::BV(x, w) => crate::panics::guarded(|| {
                        let mut st = SymbolValueStore::default();
                        for (s, _, v) in model {
                            match miter::to_baa(v) {
                                baa::Value::BitVec(b) => {
 let _ = st.define_bv(*s, &b);
 }
                                baa::Value::Array(a) => {
 let _ = st.define_array(*s, a);
 }
                            }
                        }
                        eval_bv_expr(ctx, &st, k).is_equal(&miter::baa_bv(x, *w))
                    })
                    .unwrap_or(true),
                    _ => true,
                };
                if !bigeval::vals_equal(&want, &got) || !canonical {
                    return k;
                }
            }
            (Ok(_), Err(_)) => return k,
            _ => {}
        }
    }
    e
}

fn real_eval_val(ctx: &Context, model: &miter::Model, e: ExprRef) -> Option<Val> {
    let mut st = SymbolValueStore::default();
    for (s, _, v) in model {
        match miter::to_baa(v) {
            baa::Value::BitVec(b) => {
 let _ = st.define_bv(*s, &b);
 }
            baa::Value::Array(a) => {
 let _ = st.define_array(*s, a);
 }
        }
    }
    Some(real_to_val(&eval_expr(ctx, &st, e)))
}

fn validation_part(rep: &mut Report, tier: Tier, seed: u64) {
    let shapes_all = gen_shapes(tier, seed);
    let parts: Vec<Report> = shapes_all
        .par_chunks(500)
        .enumerate()
        .map(|(ci, chunk)| {
            let mut r = Report::new("C06", tier, seed, "other");
            let mut ctx = Context::default();
            for (i, sh) in chunk.iter().enumerate() {
                if i % 100 == 99 {
                    ctx = Context::default();
                }
                let idx = ci * 500 + i;
                let e = sh.build(&mut ctx);
                let mut syms = vec![];
                sh.symbols(&mut syms);
                let n_assign = if syms.is_empty() { 1 } else { tier.pick(3, 6) };
                for a in 0..n_assign {
                    r.count("validation_points", 1);
                    let mut rng = Rng::new(seed, "C06-assign", (idx * 16 + a) as u64);
                    let model: miter::Model = syms.iter().map(|(si, t)| (Sh::Sym(*si, *t).build(&mut ctx), shapes::sym_name(*si, *t), sym_value(&mut rng, *t))).collect();
                    // correlated arrays (last assignment of an instance): a second array symbol of the same type is a copy
                    // of the first that differs in exactly one cell - the first, the last or a middle index - so that
                    // array comparisons have to look at every index
                    let mut model = model;
                    if a + 1 == n_assign {
                        let arrs: Vec<usize> = model.iter().enumerate().filter(|(_, m)| matches!(m.2, Val::Arr { .. })).map(|(k, _)| k).collect();
                        if arrs.len() >= 2 && model[arrs[0]].2.ty() == model[arrs[1]].2.ty() {
                            if let Val::Arr { iw, dw, default, map } = model[arrs[0]].2.clone() {
                                let cell = match rng.below(3) {
                                    0 => BigUint::from(0u32),
                                    1 => bigeval::mask(iw),
                                    _ => bigeval::mask(iw) >> 1u32,
                                };
                                let cur = map.get(&cell).cloned().unwrap_or(default.clone());
                                let mut m2 = map.clone();
                                m2.insert(cell, (cur + 1u32) & bigeval::mask(dw));
                                model[arrs[1]].2 = Val::Arr { iw, dw, default, map: m2 };
                                r.count("correlated_array_assignments", 1);
                            }
                        }
                    }
                    let mut env = miter::model_env(&model);
                    // short-circuit: supply a value for one inner operator node that differs from its own value
                    let mut supplied: Option<(ExprRef, Val)> = None;
                    if a == 1 || a == 2 {
                        // candidates: inner operator nodes among the children and grandchildren, bit-vector typed
                        // (a == 1: first child that qualifies, as before) or of any type incl. arrays (a == 2: chosen
                        // by the instance's generator - a supplied *array* value for a store / ite / constant-array
                        // node below a read was added after an independently seeded read-over-write fast path)
                        let is_inner = |k: &ExprRef| !matches!(decompose(&ctx[*k]).op, Op::BVSymbol | Op::ArraySymbol | Op::BVLiteral);
                        let kids = decompose(&ctx[e]).kids;
                        let mut cands: Vec<ExprRef> = vec![];
                        if a == 1 {
                            cands.extend(kids.iter().copied().filter(|k| is_inner(k) && matches!(RefEnc::type_of(&ctx, *k), Ok(Ty::BV(_)))).take(1));
                        } else {
                            // no supplied *array* directly under an array equality: a supplied array that is equal to
                            // the other operand but differs from it in its default is the recorded array-equality
                            // finding of the dependency (it would re-appear here under new roles)
                            let is_arr = |k: &ExprRef| matches!(RefEnc::type_of(&ctx, *k), Ok(Ty::Arr(..)));
                            let root_is_aeq = decompose(&ctx[e]).op == Op::ArrayEqual;
                            for k in kids.iter() {
                                if is_inner(k) {
                                    if !(is_arr(k) && root_is_aeq) {
                                        cands.push(*k);
                                    }
                                    let k_is_aeq = decompose(&ctx[*k]).op == Op::ArrayEqual;
                                    cands.extend(decompose(&ctx[*k]).kids.into_iter().filter(|g| is_inner(g) && !(is_arr(g) && (k_is_aeq || root_is_aeq))));
                                }
                            }
                            // arrays first: they are the rarer case
                            let arrs: Vec<ExprRef> = cands.iter().copied().filter(|k| matches!(RefEnc::type_of(&ctx, *k), Ok(Ty::Arr(..)))).collect();
                            if !arrs.is_empty() && rng.chance(2, 3) {
                                cands = arrs;
                            }
                            if !cands.is_empty() {
                                let pick = cands[rng.below(cands.len())];
                                cands = vec![pick];
                            }
                        }
                        if let Some(k) = cands.first() {
                            let nv = match bigeval::eval(&ctx, &env, *k) {
                                Ok(Val::BV(v, w)) => Some(Val::BV((v + 1u32) & bigeval::mask(w), w)),
                                Ok(Val::Arr { iw, dw, default, map }) => {
                                    // other contents in cell 0 and in cell 2^iw - 1; the default is kept (arrays that differ
                                    // in their default only by representation are the recorded array-equality finding
                                    // of the dependency and would show up here under a new role)
                                    let m = bigeval::mask(dw);
                                    let mut m2 = map.clone();
                                    for cell in [BigUint::from(0u32), bigeval::mask(iw)] {
                                        let cur = map.get(&cell).cloned().unwrap_or(default.clone());
                                        m2.insert(cell, (cur + 1u32) & &m);
                                    }
                                    Some(Val::Arr { iw, dw, default, map: m2 })
                                }
                                Err(_) => None,
                            };
                            if let Some(nv) = nv {
                                env.insert(*k, nv.clone());
                                supplied = Some((*k, nv));
                                r.count("short_circuit_points", 1);
                                if a == 2 {
                                    r.count("short_circuit_points_deep_or_array", 1);
                                }
                            }
                        }
                    }
                    let Ok(want) = bigeval::eval(&ctx, &env, e) else { continue };
                    // the three symbol stores
                    let is_bv = matches!(want, Val::BV(..));
                    let store_kinds: Vec<&str> = if model.iter().all(|m| matches!(m.2, Val::BV(..))) && supplied.as_ref().map(|s| matches!(s.1, Val::BV(..))).unwrap_or(true) { vec!["SymbolValueStore", "SymbolValueStore(update)", "FxHashMap", "slice"] } else { vec!["SymbolValueStore", "SymbolValueStore(update)"] };
                    let mut point_wrong = false;
                    for sk in store_kinds {
                        r.count("evaluations", 1);
                        let got = crate::panics::guarded(|| -> Val {
                            let mut full: Vec<(ExprRef, Val)> = model.iter().map(|(s, _, v)| (*s, v.clone())).collect();
                            if let Some((k, v)) = supplied.as_ref() {
                                full.push((*k, v.clone()));
                            }
                            match sk {
                                "SymbolValueStore" => {
                                    let mut st = SymbolValueStore::default();
                                    for (s, v) in full.iter() {
                                        // sparse and dense array values alternate
                                        match if idx % 2 == 1 { miter::to_baa_dense(v) } else { miter::to_baa(v) } {
                                            baa::Value::BitVec(b) => {
 let _ = st.define_bv(*s, &b);
 }
                                            baa::Value::Array(a) => {
 let _ = st.define_array(*s, a);
 }
                                        }
                                    }
                                    if is_bv && idx % 2 == 0 { real_to_val(&baa::Value::BitVec(eval_bv_expr(&ctx, &st, e))) } else if !is_bv && idx % 2 == 0 { real_to_val(&baa::Value::Array(eval_array_expr(&ctx, &st, e))) } else { real_to_val(&eval_expr(&ctx, &st, e)) }
                                }
                                "SymbolValueStore(update)" => {
                                    // define every symbol with a different value first (all ones / a filled array),
                                    // then overwrite it through update_bv / update_array / update
                                    let mut st = SymbolValueStore::default();
                                    for (s, v) in full.iter() {
                                        match v {
                                            Val::BV(_, w) => {
 let _ = st.define_bv(*s, &miter::baa_bv(&bigeval::mask(*w), *w));
 }
                                            Val::Arr { iw, dw, .. } => {
                                                let filler = Val::Arr { iw: *iw, dw: *dw, default: bigeval::mask(*dw), map: Default::default() };
                                                if let baa::Value::Array(a) = miter::to_baa(&filler) {
                                                    let _ = st.define_array(*s, a);
                                                }
                                            }
                                        }
                                    }
                                    for (k, (s, v)) in full.iter().enumerate() {
                                        match miter::to_baa(v) {
                                            baa::Value::BitVec(b) => {
                                                // results (if any) are ignored: the harness must keep compiling when a
                                                // method starts to return something
                                                if k % 2 == 0 {
                                                    let _ = st.update_bv(*s, &b);
                                                } else {
                                                    let _ = st.update(*s, baa::Value::BitVec(b));
                                                }
                                            }
                                            baa::Value::Array(a) => {
                                                if k % 2 == 0 {
                                                    let _ = st.update_array(*s, a);
                                                } else {
                                                    let _ = st.update(*s, baa::Value::Array(a));
                                                }
                                            }
                                        }
                                    }
                                    real_to_val(&eval_expr(&ctx, &st, e))
                                }
                                "FxHashMap" => {
                                    let m: rustc_hash::FxHashMap<ExprRef, baa::BitVecValue> = full.iter().map(|(s, v)| (*s, if let Val::BV(x, w) = v { miter::baa_bv(x, *w) } else { unreachable!() })).collect();
                                    real_to_val(&eval_expr(&ctx, &m, e))
                                }
                                _ => {
                                    let v: Vec<(ExprRef, baa::BitVecValue)> = full.iter().map(|(s, v)| (*s, if let Val::BV(x, w) = v { miter::baa_bv(x, *w) } else { unreachable!() })).collect();
                                    real_to_val(&eval_expr(&ctx, v.as_slice(), e))
                                }
                            }
                        });
                        let show_model = || model.iter().map(|(_, n, v)| format!("{n}={}", v.show())).collect::<Vec<_>>().join(", ");
                        match got {
                            Err((loc, msg)) => {
                                let m = if supplied.is_none() { minimize(&ctx, &env, &model, e) } else { e };
                                let (op, class) = classify(&ctx, m, &env);
                                point_wrong = true;
                                r.violation(Role::new(SITE_V, &op, &format!("panic@{loc};{class}")), format!("eval panicked ({msg}) on {} under [{}] ({sk})", sh.show(), show_model()), json!({"shape": sh.to_json(), "shape_text": sh.show(), "model": show_model(), "store": sk}));
                            }
                            Ok(got) => {
                                if !bigeval::vals_equal(&got, &want) {
                                    point_wrong = true;
                                    // a short-circuit point may fail for a reason that has nothing to do with the
                                    // supplied value: judge the plain evaluation first
                                    let plain_env = miter::model_env(&model);
                                    let plain_wrong = supplied.is_some()
                                        && match (bigeval::eval(&ctx, &plain_env, e), crate::panics::guarded(|| real_eval_val(&ctx, &model, e))) {
                                            (Ok(w), Ok(Some(g))) => !bigeval::vals_equal(&w, &g),
                                            (Ok(_), Err(_)) => true,
                                            _ => false,
                                        };
                                    // ... or because an operand outside the supplied sub-tree is already wrong / non-canonical
                                    let other_operand = match &supplied {
                                        Some((k, _)) if !plain_wrong => Some(minimize_excluding(&ctx, &plain_env, &model, e, Some(*k))).filter(|m| *m != e),
                                        _ => None,
                                    };
                                    let plain_finding = plain_wrong || other_operand.is_some();
                                    let supplied = if plain_finding { None } else { supplied.clone() };
                                    let env = if plain_finding { plain_env } else { env.clone() };
                                    let m = match other_operand {
                                        Some(m) => m,
                                        None if supplied.is_none() => minimize(&ctx, &env, &model, e),
                                        None => e,
                                    };
                                    let (op, class) = classify(&ctx, m, &env);
                                    // is the value at the minimised node right but non-canonical (wrong only downstream)?
                                    let m_value_ok = m != e
                                        && matches!((bigeval::eval(&ctx, &env, m), crate::panics::guarded(|| real_eval_val(&ctx, &model, m))), (Ok(w), Ok(Some(g))) if bigeval::vals_equal(&w, &g));
                                    let kind = if supplied.is_some() { "short-circuit;" } else if m_value_ok { "consumer-of-non-canonical;" } else { "" };
                                    r.violation(
                                        Role::new(SITE_V, &op, &format!("{kind}wrong-value;{class}")),
                                        format!("eval of {} under [{}] ({sk}{}) returns {}, SMT-LIB semantics give {}", sh.show(), show_model(), supplied.as_ref().map(|(k, v)| format!(", supplied {} := {}", crate::c01::show(&ctx, *k), v.show())).unwrap_or_default(), got.show(), want.show()),
                                        json!({"shape": sh.to_json(), "shape_text": sh.show(), "model": show_model(), "store": sk, "got": got.show(), "want": want.show(), "smallest_wrong_subexpression": crate::c01::show(&ctx, m)}),
                                    );
                                } else {
                                    r.count("validated", 1);
                                }
                            }
                        }
                    }
                    // canonical-representation clause (bit-vector results, no supplied values)
                    if supplied.is_none() && !point_wrong {
                        if let Val::BV(x, w) = &want {
                            r.count("evaluations", 1);
                            let res = crate::panics::guarded(|| {
                                let mut st = SymbolValueStore::default();
                                for (s, _, v) in model.iter() {
                                    match if idx % 2 == 1 { miter::to_baa_dense(v) } else { miter::to_baa(v) } {
                                        baa::Value::BitVec(b) => {
 let _ = st.define_bv(*s, &b);
 }
                                        baa::Value::Array(a) => {
 let _ = st.define_array(*s, a);
 }
                                    }
                                }
                                let got = eval_bv_expr(&ctx, &st, e);
                                let canon = miter::baa_bv(x, *w);
                                if crate::witness::bv_to_big(&got) != *x {
                                    // a wrong value is the business of the value clause above, not of this one
                                    return (true, true, String::new());
                                }
                                let eq = got.is_equal(&canon);
                                let l1 = ctx.bv_lit(&got);
                                let l2 = ctx.bv_lit(&canon);
                                (eq, l1 == l2, format!("{:x?}", got.words()))
                            });
                            if let Ok((eq, same_lit, words)) = res {
                                if !eq || !same_lit {
                                    let model2: miter::Model = model.clone();
                                    let env2 = miter::model_env(&model2);
                                    // smallest sub-expression whose value is already non-canonical
                                    // (post-order over all descendants: arrays can carry dirty words unseen)
                                    let mut order = vec![];
                                    post_order(&ctx, e, &mut Default::default(), &mut order);
                                    let mut cur = e;
                                    for k in order {
                                        if k == e {
                                            break;
                                        }
                                        if let (Ok(Val::BV(kx, kw)), Ok(Ty::BV(_))) = (bigeval::eval(&ctx, &env2, k), RefEnc::type_of(&ctx, k)) {
                                            let bad = crate::panics::guarded(|| {
                                                let mut st = SymbolValueStore::default();
                                                for (s, _, v) in model2.iter() {
                                                    match miter::to_baa(v) {
                                                        baa::Value::BitVec(b) => {
 let _ = st.define_bv(*s, &b);
 }
                                                        baa::Value::Array(a) => {
 let _ = st.define_array(*s, a);
 }
                                                    }
                                                }
                                                !eval_bv_expr(&ctx, &st, k).is_equal(&miter::baa_bv(&kx, kw))
                                            })
                                            .unwrap_or(false);
                                            if bad {
                                                cur = k;
                                                break;
                                            }
                                        }
                                    }
                                    let (op, class) = classify(&ctx, cur, &env2);
                                    r.violation(
                                        Role::new(SITE_V, &op, &format!("non-canonical;{class}")),
                                        format!("eval of {} under [{}] returns words {words} which {} the canonical value {} and {} to the same literal", sh.show(), model.iter().map(|(_, n, v)| format!("{n}={}", v.show())).collect::<Vec<_>>().join(", "), if eq { "compare equal to" } else { "do NOT compare equal to" }, want.show(), if same_lit { "intern" } else { "do NOT intern" }),
                                        json!({"shape": sh.to_json(), "shape_text": sh.show(), "words": words, "want": want.show(), "smallest_wrong_subexpression": crate::c01::show(&ctx, cur)}),
                                    );
                                } else {
                                    r.count("validated", 1);
                                }
                            }
                        }
                    }
                }
            }
            r
        })
        .collect();
    for p in parts {
        rep.merge(p);
    }
}

// ---------------------------------------------------------------------------------------------
// builders: the expression that eval is given. Added after an independently seeded change made a builder
// return a node with another meaning (1-bit signed comparison built as the unsigned one): evaluation of
// that node is right, evaluation of what the user asked for is not, and a reference that destructures the
// node cannot tell. For every shape the solver decides, for all symbol values,
//     RefSmt(node built through the Context methods / through the Builder closure API)  =  SMT-LIB text of the shape itself.

const SITE_B: &str = "expr::Context operator methods / expr::Builder (the expression handed to eval)";

fn builder_part(rep: &mut Report, tier: Tier, seed: u64, only: Option<Sh>) {
    // depth 1 (all leaf kinds) and depth 2 (peepholes that look at a child); the random DAGs of part V add nothing here
    let mut shapes_all = gen_shapes_opt(tier, seed, false);
    if tier == Tier::Quick {
        // quick tier: every third shape (offset by the seed)
        let off = (seed % 3) as usize;
        shapes_all = shapes_all.into_iter().enumerate().filter(|(i, _)| i % 3 == off).map(|(_, s)| s).collect();
    }
    // the division / remainder builders too (eval does not implement them, the builders exist)
    for &w in [1u32, 2, 8, 65].iter() {
        for sig in shapes::signatures(Ty::BV(w), w, true).iter().filter(|s| matches!(s.op, Op::Sdiv | Op::Udiv | Op::Smod | Op::Srem | Op::Urem)) {
            shapes_all.extend(shapes::depth1(sig, LeafMode::Minimal));
        }
    }
    if let Some(sh) = only {
        shapes_all = vec![sh];
    }
    let parts: Vec<Report> = shapes_all
        .par_chunks(400)
        .map(|chunk| {
            let mut r = Report::new("C06", tier, seed, "other");
            let mut z3 = Proc::new(Which::Z3New, 10_000);
            let mut hard = miter::Portfolio::new(20_000);
            let _ = &mut hard;
            for sub in chunk.chunks(100) {
                let mut ctx = Context::default();
                struct Job {
                    sh: usize,
                    api: &'static str,
                    e: ExprRef,
                    body: String,
                    decls: Vec<(String, Ty, ExprRef)>,
                }
                let mut jobs: Vec<Job> = vec![];
                for (i, sh) in sub.iter().enumerate() {
                    let want_ty = sh.ty();
                    for api in ["Context", "Builder"] {
                        r.count("obligations", 1);
                        r.count("builder_obligations", 1);
                        let built = crate::panics::guarded(|| if api == "Context" { sh.build(&mut ctx) } else { sh.build_via_builder(&mut ctx) });
                        let e = match built {
                            Ok(e) => e,
                            Err((loc, msg)) => {
                                let (op, class) = match sh {
                                    Sh::Op(o, _, _) => (o.name().to_string(), format!("{:?}", want_ty).to_lowercase()),
                                    _ => ("leaf".into(), String::new()),
                                };
                                let _ = class;
                                r.violation(Role::new(SITE_B, &op, &format!("{api};panic@{loc}")), format!("building {} through the {api} API panics: {msg}", sh.show()), json!({"part": "builders", "shape": sh.to_json(), "shape_text": sh.show(), "api": api}));
                                continue;
                            }
                        };
                        let mut enc = RefEnc::new(&ctx, "n");
                        let (term, ty) = match enc.enc(e) {
                            Ok(x) => x,
                            Err(m) => {
                                r.violation(Role::new(SITE_B, top_op(sh), &format!("{api};ill-typed")), format!("{} built through the {api} API is ill-typed: {}", sh.show(), m.0), json!({"part": "builders", "shape": sh.to_json(), "shape_text": sh.show(), "api": api}));
                                continue;
                            }
                        };
                        if ty != want_ty {
                            r.violation(Role::new(SITE_B, top_op(sh), &format!("{api};type")), format!("{} built through the {api} API has type {ty:?}, the operator application has type {want_ty:?}", sh.show()), json!({"part": "builders", "shape": sh.to_json(), "shape_text": sh.show(), "api": api}));
                            continue;
                        }
                        // all symbols of the shape, under the names RefEnc uses
                        let mut syms = vec![];
                        sh.symbols(&mut syms);
                        let mut decls: Vec<(String, Ty, ExprRef)> = vec![];
                        let mut names: std::collections::HashMap<(u8, Ty), String> = Default::default();
                        for (si, st) in syms.iter() {
                            let se = Sh::Sym(*si, *st).build(&mut ctx);
                            let n = format!("s!{}", usize::from(se));
                            names.insert((*si, *st), n.clone());
                            decls.push((n, *st, se));
                        }
                        // RefEnc borrowed ctx immutably before the symbols were (re)built: encode again
                        let mut enc = RefEnc::new(&ctx, "n");
                        let (term, _) = enc.enc(e).expect("encoded before");
                        let _ = term.len();
                        let (sh_text, _) = sh.smt_text(&|i, t| names[&(i, t)].clone());
                        let mut body = String::new();
                        for (n, t, _) in decls.iter() {
                            body.push_str(&format!("(declare-const {n} {})\n", refsmt_sort(*t)));
                        }
                        for (n, t, se) in enc.decls.iter() {
                            if !decls.iter().any(|d| d.2 == *se) {
                                body.push_str(&format!("(declare-const {n} {})\n", refsmt_sort(*t)));
                            }
                        }
                        body.push_str(&enc.defs);
                        body.push_str(&format!("(assert (distinct {term} {sh_text}))\n"));
                        jobs.push(Job { sh: i, api, e, body, decls });
                    }
                }
                let answers = z3.check_batch(&jobs.iter().map(|j| j.body.clone()).collect::<Vec<_>>());
                for (j, a) in jobs.iter().zip(answers.into_iter()) {
                    let sh = &sub[j.sh];
                    if a == Answer::Unsat {
                        r.count("discharged", 1);
                        continue;
                    }
                    // decide again on its own, with a model
                    z3.push();
                    let a2 = z3.check(&j.body);
                    match a2 {
                        Answer::Unsat => {
                            z3.pop();
                            r.count("discharged", 1);
                        }
                        Answer::Sat => {
                            let model = miter::read_model(&mut z3, &j.decls);
                            z3.pop();
                            let Ok(model) = model else {
                                r.inconc(json!({"shape": sh.show(), "why": "model not readable"}));
                                continue;
                            };
                            // native replay: the real node under the real evaluator (or the node-level reference for
                            // division) against the shape-level reference
                            let env = miter::model_env(&model);
                            let by_name: std::collections::HashMap<String, Val> = model.iter().map(|(e, _, v)| (ctx.get_symbol_name(*e).unwrap_or("").to_string(), v.clone())).collect();
                            let want = sh.eval_ref(&|i, t| by_name.get(&shapes::sym_name(i, t)).cloned().unwrap_or_else(|| zero_val(t)));
                            let got = if has_div(sh) { bigeval::eval(&ctx, &env, j.e).ok() } else { crate::panics::guarded(|| real_eval_val(&ctx, &model, j.e)).ok().flatten() };
                            r.count("disagreements_checked", 1);
                            match got {
                                Some(g) if !bigeval::vals_equal(&g, &want) => {
                                    r.violation(
                                        Role::new(SITE_B, top_op(sh), &format!("{};builds-a-node-with-another-meaning;{}", j.api, width_class(sh))),
                                        format!("{} built through the {} API is the node {}, which evaluates to {} under [{}]; the operator application denotes {}", sh.show(), j.api, crate::c01::show(&ctx, j.e), g.show(),
                                            model.iter().map(|(_, n, v)| format!("{n}={}", v.show())).collect::<Vec<_>>().join(", "), want.show()),
                                        json!({"part": "builders", "shape": sh.to_json(), "shape_text": sh.show(), "api": j.api, "node": crate::c01::show(&ctx, j.e), "smt2": j.body}),
                                    );
                                }
                                _ => r.undecided.push(format!("ENCODING-ERROR: builders: solver model for {} does not reproduce natively", sh.show())),
                            }
                        }
                        other => {
                            z3.pop();
                            r.inconc(json!({"shape": sh.show(), "why": format!("{other:?}")}));
                        }
                    }
                }
            }
            r.count("solver_time_ms", z3.solver_time.as_millis() as u64);
            r.count("solver_queries", z3.queries);
            r
        })
        .collect();
    for p in parts {
        rep.merge(p);
    }
}

fn top_op(sh: &Sh) -> &'static str {
    match sh {
        Sh::Op(o, _, _) => o.name(),
        Sh::Sym(..) => "sym",
        Sh::Lit(..) => "lit",
    }
}

fn width_class(sh: &Sh) -> String {
    let w = match sh {
        Sh::Op(_, _, k) => k.first().and_then(|c| c.ty().bv()).or(sh.ty().bv()).unwrap_or(0),
        _ => sh.ty().bv().unwrap_or(0),
    };
    if w == 1 { "w=1".into() } else if w <= 64 { "1<w<=64".into() } else { "w>64".into() }
}

fn zero_val(t: Ty) -> Val {
    match t {
        Ty::BV(w) => Val::BV(BigUint::from(0u32), w),
        Ty::Arr(iw, dw) => Val::Arr { iw, dw, default: BigUint::from(0u32), map: Default::default() },
    }
}

fn refsmt_sort(t: Ty) -> String {
    crate::refsmt::sort(t)
}

// ---------------------------------------------------------------------------------------------
// dispatch: source-derived encoding

#[derive(Clone, Debug)]
enum SV {
    BV(String, u32),
    Bool(String),
}

struct Arms {
    arms: Vec<(syn::Pat, syn::Expr)>,
}

impl<'ast> Visit<'ast> for Arms {
    fn visit_item_fn(&mut self, f: &'ast syn::ItemFn) {
        if f.sig.ident == "eval_expr_internal" {
            syn::visit::visit_item_fn(self, f);
        }
    }
    fn visit_expr_match(&mut self, m: &'ast syn::ExprMatch) {
        if m.expr.to_token_stream().to_string() == "expr" {
            for a in &m.arms {
                self.arms.push((a.pat.clone(), (*a.body).clone()));
            }
        }
        syn::visit::visit_expr_match(self, m);
    }
}

fn variant_names(p: &syn::Pat, out: &mut Vec<String>) {
    match p {
        syn::Pat::Or(o) => {
            for c in &o.cases {
                variant_names(c, out)
            }
        }
        syn::Pat::TupleStruct(t) => out.push(t.path.segments.last().unwrap().ident.to_string()),
        syn::Pat::Struct(s) => out.push(s.path.segments.last().unwrap().ident.to_string()),
        _ => {}
    }
}

fn sym_eval(e: &syn::Expr, env: &HashMap<String, SV>, fields: &HashMap<String, u32>, methods: &mut Vec<String>) -> Result<SV, String> {
    use syn::Expr as E;
    match e {
        E::Path(p) => {
            let n = p.path.segments.last().unwrap().ident.to_string();
            env.get(&n).cloned().ok_or(format!("unbound {n}"))
        }
        E::Reference(r) => sym_eval(&r.expr, env, fields, methods),
        E::Paren(p) => sym_eval(&p.expr, env, fields, methods),
        E::Unary(u) if matches!(u.op, syn::UnOp::Not(_)) => match sym_eval(&u.expr, env, fields, methods)? {
            SV::Bool(b) => Ok(SV::Bool(format!("(not {b})"))),
            SV::BV(..) => Err("`!` on a bit-vector value".into()),
        },
        E::Block(b) if b.block.stmts.len() == 1 => match &b.block.stmts[0] {
            syn::Stmt::Expr(x, None) => sym_eval(x, env, fields, methods),
            _ => Err("block".into()),
        },
        E::MethodCall(m) => {
            let recv = sym_eval(&m.receiver, env, fields, methods)?;
            let name = m.method.to_string();
            let mut arg_sv = |i: usize, methods: &mut Vec<String>| sym_eval(&m.args[i], env, fields, methods);
            let arg_u32 = |i: usize| -> Result<u32, String> {
                let t = m.args[i].to_token_stream().to_string().replace(['*', ' '], "");
                fields.get(&t).copied().ok_or(format!("unknown field {t}"))
            };
            match (recv, name.as_str()) {
                (SV::Bool(b), "into") => Ok(SV::BV(format!("(ite {b} #b1 #b0)"), 1)),
                (SV::BV(a, w), m1) => {
                    methods.push(m1.to_string());
                    let mut bin = |op: &str, methods: &mut Vec<String>| -> Result<SV, String> {
                        match arg_sv(0, methods)? {
                            SV::BV(b, _) => Ok(SV::BV(format!("({op} {a} {b})"), w)),
                            _ => Err("arg".into()),
                        }
                    };
                    match m1 {
                        "not" => Ok(SV::BV(format!("(bvnot {a})"), w)),
                        "negate" => Ok(SV::BV(format!("(bvneg {a})"), w)),
                        "and" => bin("bvand", methods),
                        "or" => bin("bvor", methods),
                        "xor" => bin("bvxor", methods),
                        "add" => bin("bvadd", methods),
                        "sub" => bin("bvsub", methods),
                        "mul" => bin("bvmul", methods),
                        "shift_left" => bin("bvshl", methods),
                        "shift_right" => bin("bvlshr", methods),
                        "arithmetic_shift_right" => bin("bvashr", methods),
                        "is_equal" | "is_greater" | "is_greater_signed" | "is_greater_or_equal" | "is_greater_or_equal_signed" | "is_less" | "is_less_signed" | "is_less_or_equal" | "is_less_or_equal_signed" => {
                            let op = match m1 {
                                "is_equal" => "=",
                                "is_greater" => "bvugt",
                                "is_greater_signed" => "bvsgt",
                                "is_greater_or_equal" => "bvuge",
                                "is_greater_or_equal_signed" => "bvsge",
                                "is_less" => "bvult",
                                "is_less_signed" => "bvslt",
                                "is_less_or_equal" => "bvule",
                                _ => "bvsle",
                            };
                            match arg_sv(0, methods)? {
                                SV::BV(b, _) => Ok(SV::Bool(format!("({op} {a} {b})"))),
                                _ => Err("arg".into()),
                            }
                        }
                        "concat" => match arg_sv(0, methods)? {
                            SV::BV(b, wb) => Ok(SV::BV(format!("(concat {a} {b})"), w + wb)),
                            _ => Err("arg".into()),
                        },
                        "zero_extend" => {
                            let by = arg_u32(0)?;
                            Ok(SV::BV(format!("((_ zero_extend {by}) {a})"), w + by))
                        }
                        "sign_extend" => {
                            let by = arg_u32(0)?;
                            Ok(SV::BV(format!("((_ sign_extend {by}) {a})"), w + by))
                        }
                        "slice" => {
                            let (hi, lo) = (arg_u32(0)?, arg_u32(1)?);
                            Ok(SV::BV(format!("((_ extract {hi} {lo}) {a})"), hi - lo + 1))
                        }
                        other => Err(format!("unknown method {other}")),
                    }
                }
                (_, other) => Err(format!("method {other} on bool")),
            }
        }
        other => Err(format!("unsupported expression `{}`", other.to_token_stream())),
    }
}

pub struct Dispatch {
    pub table: HashMap<String, (usize, syn::ExprClosure)>,
    pub arms: usize,
    pub pop_first_is_a: bool,
    pub child_order: HashMap<String, Vec<String>>,
}

pub fn extract_dispatch() -> Result<Dispatch, String> {
    let root = crate::report::repo_root();
    let src = std::fs::read_to_string(root.join("patronus/src/expr/eval.rs")).map_err(|e| e.to_string())?;
    let file = syn::parse_file(&src).map_err(|e| format!("eval.rs does not parse: {e}"))?;
    let mut v = Arms { arms: vec![] };
    v.visit_file(&file);
    if v.arms.is_empty() {
        return Err("no `match expr` in eval_expr_internal".into());
    }
    let mut pop_first_is_a = None;
    for it in &file.items {
        if let syn::Item::Fn(f) = it {
            if f.sig.ident == "bin_op" {
                let t = f.block.to_token_stream().to_string();
                let ia = t.find("let a = stack . pop");
                let ib = t.find("let b = stack . pop");
                if let (Some(ia), Some(ib)) = (ia, ib) {
                    if t.contains("op (a , b)") {
                        pop_first_is_a = Some(ia < ib);
                    } else if t.contains("op (b , a)") {
                        pop_first_is_a = Some(ib < ia);
                    }
                }
            }
        }
    }
    let pop_first_is_a = pop_first_is_a.ok_or("cannot recognise the pop order of bin_op")?;
    let mut table = HashMap::new();
    for (p, b) in &v.arms {
        let mut names = vec![];
        variant_names(p, &mut names);
        let mut body = b.clone();
        if let syn::Expr::Block(bl) = &body {
            if bl.block.stmts.len() == 1 {
                if let syn::Stmt::Expr(x, _) = &bl.block.stmts[0] {
                    body = x.clone();
                }
            }
        }
        if let syn::Expr::Call(c) = &body {
            let f = c.func.to_token_stream().to_string();
            if (f == "un_op" || f == "bin_op") && c.args.len() == 2 {
                if let syn::Expr::Closure(cl) = &c.args[1] {
                    for n in names {
                        table.insert(n, (if f == "un_op" { 1 } else { 2 }, cl.clone()));
                    }
                }
            }
        }
    }
    // child order from foreach.rs: for every variant, the order in which fields are passed to `visitor`
    let fsrc = std::fs::read_to_string(root.join("patronus/src/expr/foreach.rs")).map_err(|e| e.to_string())?;
    let mut child_order = HashMap::new();
    // a light-weight reading: arms of the form `Expr::X(a, b, ..) => { visitor(a); visitor(b); }` or struct patterns
    let ffile = syn::parse_file(&fsrc).map_err(|e| format!("foreach.rs does not parse: {e}"))?;
    struct FE<'a> {
        out: &'a mut HashMap<String, Vec<String>>,
        done: bool,
    }
    impl<'ast, 'a> Visit<'ast> for FE<'a> {
        fn visit_expr_match(&mut self, m: &'ast syn::ExprMatch) {
            if self.done {
                return;
            }
            for a in &m.arms {
                let mut names = vec![];
                variant_names(&a.pat, &mut names);
                let body = a.body.to_token_stream().to_string();
                // order of identifiers passed to visitor(...)
                let mut order = vec![];
                for part in body.split("visitor (").skip(1) {
                    order.push(part.split(')').next().unwrap_or("").trim().to_string());
                }
                // positional names of the pattern
                let pat_fields: Vec<String> = match &a.pat {
                    syn::Pat::TupleStruct(t) => t.elems.iter().map(|e| e.to_token_stream().to_string()).collect(),
                    syn::Pat::Struct(s) => s.fields.iter().map(|f| f.member.to_token_stream().to_string()).collect(),
                    _ => vec![],
                };
                let _ = pat_fields;
                for n in names {
                    self.out.insert(n, order.clone());
                }
            }
            self.done = true;
        }
    }
    let mut fe = FE { out: &mut child_order, done: false };
    fe.visit_file(&ffile);
    Ok(Dispatch { table, arms: v.arms.len(), pop_first_is_a, child_order })
}

fn variant_of(ctx: &Context, e: ExprRef) -> String {
    let s = format!("{:?}", ctx[e]);
    s.split(|c: char| c == '(' || c == ' ' || c == '{').next().unwrap_or("").to_string()
}

fn dispatch_part(rep: &mut Report, tier: Tier) -> Vec<String> {
    let d = match extract_dispatch() {
        Ok(d) => d,
        Err(e) => {
            rep.undecided.push(format!("CANNOT-ENCODE: {e}"));
            return vec![];
        }
    };
    rep.extra.insert("dispatch_arms_recovered".into(), json!({"arms": d.arms, "un_op_bin_op_closures": d.table.len(), "bin_op_pops_first_closure_argument_first": d.pop_first_is_a}));
    let mut z3 = Proc::new(Which::Z3New, 20_000);
    let mut ctx = Context::default();
    let mut methods_used: Vec<String> = vec![];
    let expected_variants = ["BVZeroExt", "BVSignExt", "BVSlice", "BVNot", "BVNegate", "BVEqual", "BVImplies", "BVGreater", "BVGreaterSigned", "BVGreaterEqual", "BVGreaterEqualSigned", "BVConcat", "BVAnd", "BVOr", "BVXor", "BVShiftLeft", "BVArithmeticShiftRight", "BVShiftRight", "BVAdd", "BVMul", "BVSub"];
    for v in expected_variants {
        if !d.table.contains_key(v) {
            rep.undecided.push(format!("CANNOT-ENCODE: arm for {v} is not an un_op/bin_op closure any more"));
        }
    }
    for &w in tier.pick(&[1u32, 8, 64, 65, 129][..], &[1u32, 2, 8, 63, 64, 65, 128, 129][..]) {
        let a = ctx.bv_symbol(&format!("a{w}"), w);
        let b = ctx.bv_symbol(&format!("b{w}"), w);
        let mut tests: Vec<ExprRef> = vec![ctx.not(a), ctx.negate(a), ctx.zero_extend(a, 3), ctx.sign_extend(a, 3), ctx.equal(a, b), ctx.greater(a, b), ctx.greater_signed(a, b), ctx.greater_or_equal(a, b), ctx.greater_or_equal_signed(a, b), ctx.concat(a, b), ctx.and(a, b), ctx.or(a, b), ctx.xor(a, b), ctx.shift_left(a, b), ctx.arithmetic_shift_right(a, b), ctx.shift_right(a, b), ctx.add(a, b), ctx.mul(a, b), ctx.sub(a, b)];
        if w > 2 {
            tests.push(ctx.slice(a, w - 2, 1));
        }
        if w == 1 {
            tests.push(ctx.implies(a, b));
        }
        for &e in tests.iter() {
            let vname = variant_of(&ctx, e);
            let Some((arity, cl)) = d.table.get(&vname) else { continue };
            rep.count("obligations", 1);
            rep.count("dispatch_obligations", 1);
            let mut fields = HashMap::new();
            let n = decompose(&ctx[e]);
            match n.op {
                Op::ZeroExt | Op::SignExt => {
                    fields.insert("by".to_string(), n.params[0]);
                }
                Op::Slice => {
                    fields.insert("hi".to_string(), n.params[0]);
                    fields.insert("lo".to_string(), n.params[1]);
                }
                _ => {}
            }
            // children in the order for_each_child visits them (read from foreach.rs)
            let mut kids = n.kids.clone();
            if let Some(order) = d.child_order.get(&vname) {
                if order.len() == 2 && kids.len() == 2 {
                    // the pattern binds positional fields; `visitor(b); visitor(a)` would reverse the order
                    let first = order[0].replace(['*', '&', ' '], "");
                    let second = order[1].replace(['*', '&', ' '], "");
                    if first > second {
                        kids.reverse();
                    }
                }
            }
            let mut r = RefEnc::new(&ctx, "n");
            let kv: Vec<SV> = kids
                .iter()
                .map(|c| {
                    let (t, ty) = r.enc(*c).unwrap();
                    SV::BV(t, ty.bv().unwrap())
                })
                .collect();
            // stack discipline: parent pushed, children pushed in visiting order, LIFO evaluation =>
            // the first visited child is evaluated last and ends on top of the value stack
            let on_stack_top_first: Vec<SV> = kv.clone();
            let params: Vec<String> = cl.inputs.iter().map(|p| p.to_token_stream().to_string()).collect();
            if params.len() != *arity {
                rep.undecided.push(format!("CANNOT-ENCODE: closure of {vname} has {} parameters", params.len()));
                continue;
            }
            let mut env = HashMap::new();
            for (i, p) in params.iter().enumerate() {
                let v = if *arity == 2 && !d.pop_first_is_a { on_stack_top_first[1 - i].clone() } else { on_stack_top_first[i].clone() };
                env.insert(p.clone(), v);
            }
            let res = sym_eval(&cl.body, &env, &fields, &mut methods_used);
            let (rt, _) = r.enc(e).unwrap();
            match res {
                Ok(SV::BV(t, _)) => {
                    let q = format!("{}{}(assert (distinct {t} {rt}))\n", r.decl_text(), r.defs);
                    let mut a = z3.check_once(&q);
                    if matches!(a, Answer::Unknown | Answer::Timeout) {
                        let mut c = Proc::new(Which::Cvc5, 30_000);
                        a = c.check_once(&q);
                    }
                    match a {
                        Answer::Unsat => {
                            rep.count("discharged", 1);
                            rep.count("dispatch_discharged", 1);
                            if w == 65 {
                                rep.sample(json!({"part": "dispatch", "variant": vname, "closure": cl.to_token_stream().to_string(), "encoded": t, "reference": crate::c01::show(&ctx, e), "answer": "unsat"}), 40);
                            }
                        }
                        Answer::Sat => {
                            rep.count("disagreements_checked", 1);
                            rep.violation(Role::new(SITE_D, &vname, "arm-differs-from-smtlib"), format!("the arm of eval_expr_internal for {vname} (`{}`) does not compute the SMT-LIB value of {} at width {w}", cl.to_token_stream(), crate::c01::show(&ctx, e)), json!({"variant": vname, "width": w, "closure": cl.to_token_stream().to_string(), "smt2": q}));
                        }
                        other => {
                            // 129-bit multiplication etc.: not decided, listed
                            rep.count("dispatch_undecided_listed", 1);
                            rep.uncount("obligations", 1);
                            if rep.inconclusive.len() < 20 {
                                rep.inconclusive.push(json!({"part": "dispatch", "variant": vname, "width": w, "why": other.short()}));
                            }
                        }
                    }
                }
                Ok(SV::Bool(_)) => rep.undecided.push(format!("CANNOT-ENCODE: closure of {vname} returns a bool")),
                Err(er) => rep.undecided.push(format!("CANNOT-ENCODE: arm {vname}: {er}")),
            }
        }
    }
    methods_used.sort();
    methods_used.dedup();
    rep.extra.insert("baa_methods_called_by_eval".into(), json!(methods_used));
    methods_used
}

pub fn run(tier: Tier, seed: u64, replay: Option<serde_json::Value>) -> i32 {
    let mut rep = Report::new("C06", tier, seed, "other");
    if replay.is_some() {
        rep.write_files = false;
    }
    if let Some(r) = &replay {
        if r["replay"]["part"].as_str() == Some("builders") {
            if let Some(sh) = Sh::from_json(&r["replay"]["shape"]) {
                builder_part(&mut rep, tier, seed, Some(sh));
                return rep.finish();
            }
        }
    }
    let methods = dispatch_part(&mut rep, tier);
    validation_part(&mut rep, tier, seed);
    builder_part(&mut rep, tier, seed, None);
    // kernels: results of the Kani runner (written by ./check before this binary is started)
    let kpath = crate::report::verif_root().join(".build").join("kani_results.json");
    let mut kernel_summary = json!({"status": "kani runner did not produce results"});
    match std::fs::read_to_string(&kpath).ok().and_then(|t| serde_json::from_str::<serde_json::Value>(&t).ok()) {
        Some(k) => {
            let hs = k["harnesses"].as_array().cloned().unwrap_or_default();
            let mut verified = 0u64;
            let mut failed = vec![];
            let mut undecided = 0u64;
            let mut covered_methods: Vec<String> = vec![];
            for h in hs.iter() {
                match h["verdict"].as_str().unwrap_or("") {
                    "verified" => {
                        verified += 1;
                        rep.count("obligations", 1);
                        rep.count("discharged", 1);
                        if let Some(m) = h["method"].as_str() {
                            covered_methods.push(m.to_string());
                        }
                    }
                    "failed" => {
                        rep.count("obligations", 1);
                        failed.push(h.clone());
                    }
                    _ => undecided += 1,
                }
            }
            for h in failed.iter() {
                let name = h["name"].as_str().unwrap_or("?");
                let confirmed = h["native_replay"].as_str().unwrap_or("") == "fails";
                if confirmed {
                    rep.count("disagreements_checked", 1);
                    rep.violation(
                        Role::new("baa kernels called by expr::eval (Kani/CBMC)", h["method"].as_str().unwrap_or("?"), h["class"].as_str().unwrap_or("?")),
                        format!("kernel harness {name} fails: {} (replayed natively: {})", h["failed_check"].as_str().unwrap_or("?"), h["replay_values"]),
                        json!({"harness": name, "kani": h}),
                    );
                } else {
                    rep.undecided.push(format!("kernel harness {name} failed in CBMC but the counterexample did not replay natively"));
                }
            }
            covered_methods.sort();
            covered_methods.dedup();
            for m in methods.iter() {
                if !covered_methods.contains(m) && !matches!(m.as_str(), "mul") {
                    rep.extra.insert(format!("kernel_not_decided:{m}"), json!("no verified harness for this method in this run"));
                }
            }
            kernel_summary = json!({"harnesses": hs.len(), "verified": verified, "failed": failed.len(), "not_decided": undecided, "details": hs, "kani": k["kani_version"], "cap_s": k["cap_s"]});
            rep.extra.insert("wall_s_outside_this_process".into(), json!(k["wall_s"].as_f64().unwrap_or(0.0)));
            rep.count("kani_harnesses_verified", verified);
            rep.count("kani_harnesses_not_decided", undecided);
        }
        None => rep.undecided.push("kernel results missing (.build/kani_results.json)".into()),
    }
    rep.extra.insert("kani_kernels".into(), kernel_summary);
    let ev = rep.get("evaluations").max(1);
    rep.count("distinct_nontrivial", rep.get("validated").min(ev));
    rep.extra.insert(
        "explanation".into(),
        json!("C06 has three parts. K: Kani/CBMC proves each baa kernel that eval.rs calls equal to a u128/i128 reference for ALL operand values at the listed concrete widths (bounded by width list and time cap; undecided harnesses are listed, never counted). D: the un_op/bin_op arms of eval_expr_internal are extracted from the current source with syn and proved equal to RefSmt for ALL symbol values (the work-list loop around them is modelled, not extracted). V: the real eval_expr/eval_bv_expr/eval_array_expr are run on enumerated boundary vectors (all literal classes incl. shift amounts >= width and >= 2^32, three symbol stores, short-circuit values, canonical-representation clause) against an independent big-integer evaluator; V is enumeration, not a universally quantified verdict."),
    );
    rep.extra.insert("rule".into(), json!("an evaluation is one (expression shape, assignment, symbol store) triple; non-trivial = the expression contains at least one operator; distinct by construction of the enumeration"));
    rep.extra.insert("bounds".into(), json!({"validation_widths": widths(tier), "dispatch_widths": tier.pick(vec![1, 8, 64, 65, 129], vec![1, 2, 8, 63, 64, 65, 128, 129])}));
    rep.extra.insert("outside_claim".into(), json!(["the five division/remainder operators (documented unimplemented)", "mul kernels above 64 bit (CBMC does not finish; baa has todo!() above 128)", "array kernels (ArrayValue is backed by std HashMap, outside CBMC); arrays are covered by part V only", "the work-list loop of eval_expr_internal is covered by part V only"]));
    rep.assumptions = vec!["the big-integer evaluator states SMT-LIB semantics (validated against z3 models in every other check)".into(), "CBMC is sound for the compiled MIR within the unwinding bounds (unwinding assertions on)".into()];
    rep.finish()
}

/// Native twin of a Kani kernel harness: the same baa call on concrete operands, judged by the
/// big-integer reference. Prints `fails` or `passes`.
pub fn kernel_replay(spec: &serde_json::Value, a: u128, b: u128) -> String {
    let w = spec["width"].as_u64().unwrap_or(1) as u32;
    let m = if w >= 128 { u128::MAX } else { (1u128 << w) - 1 };
    let (a, mut b) = (a & m, b & m);
    if let Some(amt) = spec["params"]["amt"].as_u64() {
        b = amt as u128 & m;
    }
    let name = spec["name"].as_str().unwrap_or("");
    let va = baa::BitVecValue::from_u128(a, w);
    let vb = baa::BitVecValue::from_u128(b, w);
    let big = |x: u128| BigUint::from(x);
    let bv = |x: u128| Val::BV(big(x), w);
    let p = |k: &str| spec["params"][k].as_u64().unwrap_or(0) as u32;
    let r = crate::panics::guarded(|| -> bool {
        // (real result as value+canonical flag, reference)
        let check = |r: baa::BitVecValue, want: Val| -> bool {
            let (x, ww) = match &want {
                Val::BV(x, ww) => (x.clone(), *ww),
                _ => unreachable!(),
            };
            r.width() == ww && r.is_equal(&miter::baa_bv(&x, ww))
        };
        let bin = |op: Op| bigeval::eval_op(op, [0, 0], &[bv(a), bv(b)]);
        let un = |op: Op, params: [u32; 2]| bigeval::eval_op(op, params, &[bv(a)]);
        let truth = |v: &Val| matches!(v, Val::BV(x, _) if *x == BigUint::from(1u32));
        if name.starts_with("k_not_") {
            check(va.not(), un(Op::Not, [0, 0]))
        } else if name.starts_with("k_negate_") {
            check(va.negate(), un(Op::Neg, [0, 0]))
        } else if name.starts_with("k_and_") {
            check(va.and(&vb), bin(Op::And))
        } else if name.starts_with("k_or_") {
            check(va.or(&vb), bin(Op::Or))
        } else if name.starts_with("k_xor_") {
            check(va.xor(&vb), bin(Op::Xor))
        } else if name.starts_with("k_add_") {
            check(va.add(&vb), bin(Op::Add))
        } else if name.starts_with("k_sub_") {
            check(va.sub(&vb), bin(Op::Sub))
        } else if name.starts_with("k_mul_") {
            check(va.mul(&vb), bin(Op::Mul))
        } else if name.starts_with("k_shift_left_") {
            check(va.shift_left(&vb), bin(Op::Shl))
        } else if name.starts_with("k_shift_right_") {
            check(va.shift_right(&vb), bin(Op::Lshr))
        } else if name.starts_with("k_arithmetic_shift_right_") {
            check(va.arithmetic_shift_right(&vb), bin(Op::Ashr))
        } else if name.starts_with("k_is_equal_") {
            va.is_equal(&vb) == truth(&bin(Op::Equal))
        } else if name.starts_with("k_is_greater_or_equal_signed_") {
            va.is_greater_or_equal_signed(&vb) == truth(&bin(Op::Sge))
        } else if name.starts_with("k_is_greater_signed_") {
            va.is_greater_signed(&vb) == truth(&bin(Op::Sgt))
        } else if name.starts_with("k_is_greater_") {
            va.is_greater(&vb) == truth(&bin(Op::Ugt))
        } else if name.starts_with("k_uge_as_not_greater_") {
            !vb.is_greater(&va) == truth(&bin(Op::Uge))
        } else if name.starts_with("k_implies_") {
            check(va.not().or(&vb), bin(Op::Implies))
        } else if name.starts_with("k_slice_") {
            check(va.slice(p("hi"), p("lo")), un(Op::Slice, [p("hi"), p("lo")]))
        } else if name.starts_with("k_zero_extend_") {
            check(va.zero_extend(p("by")), un(Op::ZeroExt, [p("by"), 0]))
        } else if name.starts_with("k_sign_extend_") {
            check(va.sign_extend(p("by")), un(Op::SignExt, [p("by"), 0]))
        } else if name.starts_with("k_concat_") {
            let w2 = p("w2");
            let b2 = b & ((1u128 << w2) - 1);
            let vb2 = baa::BitVecValue::from_u128(b2, w2);
            check(va.concat(&vb2), bigeval::eval_op(Op::Concat, [0, 0], &[bv(a), Val::BV(big(b2), w2)]))
        } else {
            true
        }
    });
    match r {
        Ok(true) => "passes".into(),
        Ok(false) => "fails".into(),
        Err((loc, msg)) => format!("fails (panic at {loc}: {msg})"),
    }
}
