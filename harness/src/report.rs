//! Evidence, known-findings matching, replay files, exit codes.

use serde_json::{Map, Value, json};
use std::collections::BTreeMap;
use std::path::PathBuf;
use std::time::Instant;

pub fn verif_root() -> PathBuf {
    if let Ok(p) = std::env::var("PVERIF_ROOT") {
        return PathBuf::from(p);
    }
    let m = PathBuf::from(env!("CARGO_MANIFEST_DIR"));
    m.parent().map(|p| p.to_path_buf()).unwrap_or(PathBuf::from("/verif"))
}

pub fn repo_root() -> PathBuf {
    PathBuf::from(std::env::var("PVERIF_REPO").unwrap_or_else(|_| "/repo".to_string()))
}

#[derive(Clone, Debug, PartialEq, Eq, PartialOrd, Ord)]
pub struct Role {
    pub site: String,
    pub operator: String,
    pub class: String,
}

impl Role {
    pub fn new(site: &str, operator: &str, class: &str) -> Self {
        Role { site: site.into(), operator: operator.into(), class: class.into() }
    }
    pub fn key(&self) -> String {
        format!("{} / {} / {}", self.site, self.operator, self.class)
    }
}

#[derive(Clone, Debug)]
pub struct Violation {
    pub role: Role,
    pub what: String,
    pub replay: Value,
}

#[derive(Clone, Copy, PartialEq, Eq, Debug)]
pub enum Tier {
    Quick,
    Thorough,
}

impl Tier {
    pub fn name(self) -> &'static str {
        match self {
            Tier::Quick => "quick",
            Tier::Thorough => "thorough",
        }
    }
    pub fn pick<T>(self, q: T, t: T) -> T {
        match self {
            Tier::Quick => q,
            Tier::Thorough => t,
        }
    }
}

pub struct Report {
    pub prop: String,
    pub tier: Tier,
    pub seed: u64,
    pub level: String,
    pub t0: Instant,
    pub counters: BTreeMap<String, u64>,
    pub samples: Vec<Value>,
    pub violations: Vec<Violation>,
    pub inconclusive: Vec<Value>,
    pub extra: Map<String, Value>,
    pub assumptions: Vec<String>,
    /// reasons that make the run undecided (exit 2)
    pub undecided: Vec<String>,
    /// write evidence / replay files (false for --replay runs)
    pub write_files: bool,
}

#[derive(Clone, Debug)]
pub struct KnownEntry {
    pub property: String,
    pub status: String,
    pub role: Role,
    pub what: String,
}

pub fn load_known() -> Vec<KnownEntry> {
    let p = verif_root().join("known_findings.json");
    let Ok(txt) = std::fs::read_to_string(&p) else { return vec![] };
    let v: Value = serde_json::from_str(&txt).expect("known_findings.json is not valid JSON");
    let mut out = vec![];
    for f in v["findings"].as_array().cloned().unwrap_or_default() {
        let g = |k: &str| f["role"][k].as_str().unwrap_or("").to_string();
        out.push(KnownEntry {
            property: f["property"].as_str().unwrap_or("").to_string(),
            status: f["status"].as_str().unwrap_or("").to_string(),
            role: Role { site: g("site"), operator: g("operator"), class: g("class") },
            what: f["what"].as_str().unwrap_or("").to_string(),
        });
    }
    out
}

impl Report {
    pub fn new(prop: &str, tier: Tier, seed: u64, level: &str) -> Self {
        Report {
            prop: prop.into(),
            tier,
            seed,
            level: level.into(),
            t0: Instant::now(),
            counters: BTreeMap::new(),
            samples: vec![],
            violations: vec![],
            inconclusive: vec![],
            extra: Map::new(),
            assumptions: vec![],
            undecided: vec![],
            write_files: true,
        }
    }
    pub fn count(&mut self, k: &str, n: u64) {
        *self.counters.entry(k.to_string()).or_insert(0) += n;
    }
    pub fn uncount(&mut self, k: &str, n: u64) {
        let e = self.counters.entry(k.to_string()).or_insert(0);
        *e = e.saturating_sub(n);
    }
    pub fn get(&self, k: &str) -> u64 {
        *self.counters.get(k).unwrap_or(&0)
    }
    pub fn sample(&mut self, v: Value, cap: usize) {
        if self.samples.len() < cap {
            self.samples.push(v);
        }
    }
    pub fn inconc(&mut self, v: Value) {
        self.count("inconclusive", 1);
        if self.inconclusive.len() < 40 {
            self.inconclusive.push(v);
        }
    }
    pub fn violation(&mut self, role: Role, what: String, replay: Value) {
        self.violations.push(Violation { role, what, replay });
    }
    pub fn merge(&mut self, other: Report) {
        for (k, v) in other.counters {
            *self.counters.entry(k).or_insert(0) += v;
        }
        for s in other.samples {
            if self.samples.len() < 24 {
                self.samples.push(s);
            }
        }
        self.violations.extend(other.violations);
        for i in other.inconclusive {
            if self.inconclusive.len() < 40 {
                self.inconclusive.push(i);
            }
        }
        self.undecided.extend(other.undecided);
        for (k, v) in other.extra {
            self.extra.entry(k).or_insert(v);
        }
    }

    /// Writes evidence and replay files, prints KNOWN-FINDING / VIOLATION lines, returns the
    /// process exit code.
    pub fn finish(mut self) -> i32 {
        let root = verif_root();
        let known = load_known();
        let mut confirmed: BTreeMap<String, (String, usize)> = BTreeMap::new();
        let mut fresh: Vec<&Violation> = vec![];
        for v in self.violations.iter() {
            let m = known
                .iter()
                .find(|k| k.property == self.prop && k.status == "known" && k.role == v.role);
            match m {
                Some(k) => {
                    let e = confirmed.entry(k.role.key()).or_insert((k.what.clone(), 0));
                    e.1 += 1;
                }
                None => fresh.push(v),
            }
        }
        for (key, (what, n)) in confirmed.iter() {
            println!("KNOWN-FINDING: property={} {} [{}; {} instance(s) this run]", self.prop, what, key, n);
        }
        // group fresh violations by role; one replay file per role (first instance)
        let mut by_role: BTreeMap<String, Vec<&Violation>> = BTreeMap::new();
        for v in fresh.iter() {
            by_role.entry(v.role.key()).or_default().push(v);
        }
        let mut exit = 0;
        let mut fresh_roles = vec![];
        for (key, vs) in by_role.iter() {
            let v = vs[0];
            let mut h: u64 = 0xcbf29ce484222325;
            for b in key.bytes().chain(v.what.bytes()) {
                h ^= b as u64;
                h = h.wrapping_mul(0x100000001b3);
            }
            let path = root.join("replays").join(format!("{}-{:012x}.json", self.prop, h & 0xffff_ffff_ffff));
            if self.write_files {
                let _ = std::fs::create_dir_all(root.join("replays"));
                let body = json!({
                    "property": self.prop, "role": {"site": v.role.site, "operator": v.role.operator, "class": v.role.class},
                    "what": v.what, "instances_with_this_role": vs.len(), "replay": v.replay,
                    "replay_cmd": format!("./check {} --replay {}", self.prop, path.display()),
                });
                let _ = std::fs::write(&path, serde_json::to_string_pretty(&body).unwrap());
            }
            println!("VIOLATION property={} replay={}", self.prop, path.display());
            println!("  role: {key}");
            println!("  what: {}", v.what);
            fresh_roles.push(json!({"role": key, "what": v.what, "instances": vs.len()}));
            exit = 1;
        }
        // undecided?
        let obligations = self.get("obligations");
        let inconclusive = self.get("inconclusive");
        if obligations > 0 && inconclusive * 50 > obligations {
            self.undecided.push(format!("{inconclusive} of {obligations} obligations inconclusive (> 2 %)"));
        }
        if exit == 0 && !self.undecided.is_empty() {
            for u in self.undecided.iter() {
                println!("UNDECIDED: {u}");
            }
            exit = 2;
        }
        let wall = self.t0.elapsed().as_secs_f64() + self.extra.get("wall_s_outside_this_process").and_then(|v| v.as_f64()).unwrap_or(0.0);
        let mut cov = Map::new();
        for k in ["programs", "disagreements_checked", "obligations", "discharged", "inconclusive"] {
            cov.insert(k.to_string(), json!(0));
        }
        for (k, v) in self.counters.iter() {
            cov.insert(k.clone(), json!(v));
        }
        for (k, v) in self.extra.iter() {
            cov.insert(k.clone(), v.clone());
        }
        if self.samples.is_empty() {
            self.samples.push(json!("no instance generated"));
        }
        cov.insert("samples".into(), Value::Array(self.samples.clone()));
        cov.insert("inconclusive_samples".into(), Value::Array(self.inconclusive.clone()));
        cov.insert(
            "known_findings_confirmed".into(),
            Value::Array(confirmed.iter().map(|(k, (w, n))| json!({"role": k, "what": w, "instances": n})).collect()),
        );
        cov.insert("fresh_violations".into(), Value::Array(fresh_roles));
        cov.insert("undecided_reasons".into(), json!(self.undecided));
        let ev = json!({
            "property_id": self.prop, "tier": self.tier.name(), "seed": self.seed as i64, "level": self.level,
            "wall_s": (wall * 100.0).round() / 100.0, "violations": by_role.len(),
            "coverage": Value::Object(cov), "assumptions": self.assumptions,
        });
        if self.write_files {
            // PVERIF_EVIDENCE_DIR: used when a check is run against a deliberately broken tree (seeded
            // changes), so that the committed evidence only ever describes the unchanged tree
            let dir = std::env::var("PVERIF_EVIDENCE_DIR").map(PathBuf::from).unwrap_or(root.join("evidence"));
            let _ = std::fs::create_dir_all(&dir);
            let p = dir.join(format!("{}.json", self.prop));
            std::fs::write(&p, serde_json::to_string_pretty(&ev).unwrap()).expect("cannot write evidence");
        }
        println!(
            "{} {}: obligations={} discharged={} inconclusive={} known={} fresh={} wall={:.1}s exit={}",
            self.prop,
            self.tier.name(),
            obligations,
            self.get("discharged"),
            inconclusive,
            confirmed.len(),
            by_role.len(),
            wall,
            exit
        );
        exit
    }
}
