//! Live solver access through the real patronus text protocol (SmtLibSolverCtx) with a delegating
//! wrapper that selects the capability profile, plus the reachability oracle on RefUnroll.

use crate::refunroll::RefUnroll;
use crate::solver::{Answer, Proc};
use patronus::expr::{Context, ExprRef};
use patronus::smt::{CheckSatResponse, Logic, Result, Solver, SolverContext, SolverMetaData};
use patronus::system::TransitionSystem;

#[derive(Clone, Copy, Debug, PartialEq, Eq)]
pub struct Profile {
    pub solver: &'static str,
    pub check_assuming: bool,
    /// answer get-unsat-assumptions with every assumption of the last query (a legal, maximal core)
    pub widen_cores: bool,
}

impl Profile {
    pub fn name(&self) -> String {
        format!("{}/{}{}", self.solver, if self.check_assuming { "check-sat-assuming" } else { "push-pop" }, if self.widen_cores { "/full-cores" } else { "" })
    }
}

pub const PROFILES: [Profile; 4] = [
    Profile { solver: "z3", check_assuming: true, widen_cores: false },
    Profile { solver: "z3", check_assuming: false, widen_cores: false },
    Profile { solver: "cvc5", check_assuming: true, widen_cores: false },
    Profile { solver: "cvc5", check_assuming: false, widen_cores: false },
];

pub struct Prof<S: SolverContext> {
    pub inner: S,
    pub profile: Profile,
    pub last_assumptions: Vec<ExprRef>,
    pub calls: u64,
}

impl<S: SolverContext> SolverMetaData for Prof<S> {
    fn name(&self) -> &str {
        self.inner.name()
    }
    fn supports_check_assuming(&self) -> bool {
        self.profile.check_assuming
    }
    fn supports_uf(&self) -> bool {
        self.inner.supports_uf()
    }
    fn supports_const_array(&self) -> bool {
        self.inner.supports_const_array()
    }
    fn supports_get_unsat_assumptions(&self) -> bool {
        self.inner.supports_get_unsat_assumptions()
    }
}

impl<S: SolverContext> SolverContext for Prof<S> {
    fn restart(&mut self) -> Result<()> {
        self.inner.restart()
    }
    fn set_logic(&mut self, l: Logic) -> Result<()> {
        self.inner.set_logic(l)
    }
    fn assert(&mut self, ctx: &Context, e: ExprRef) -> Result<()> {
        self.inner.assert(ctx, e)
    }
    fn declare_const(&mut self, ctx: &Context, s: ExprRef) -> Result<()> {
        self.inner.declare_const(ctx, s)
    }
    fn define_const(&mut self, ctx: &Context, s: ExprRef, e: ExprRef) -> Result<()> {
        self.inner.define_const(ctx, s, e)
    }
    fn check_sat_assuming(&mut self, ctx: &Context, props: impl IntoIterator<Item = ExprRef>) -> Result<CheckSatResponse> {
        let p: Vec<ExprRef> = props.into_iter().collect();
        self.last_assumptions = p.clone();
        self.calls += 1;
        self.inner.check_sat_assuming(ctx, p)
    }
    fn check_sat(&mut self) -> Result<CheckSatResponse> {
        self.calls += 1;
        self.inner.check_sat()
    }
    fn push(&mut self) -> Result<()> {
        self.inner.push()
    }
    fn pop(&mut self) -> Result<()> {
        self.inner.pop()
    }
    fn get_value(&mut self, ctx: &mut Context, e: ExprRef) -> Result<ExprRef> {
        self.inner.get_value(ctx, e)
    }
    fn get_unsat_assumptions(&mut self, ctx: &mut Context) -> Result<Vec<ExprRef>> {
        let core = self.inner.get_unsat_assumptions(ctx)?;
        if self.profile.widen_cores { Ok(self.last_assumptions.clone()) } else { Ok(core) }
    }
}

pub fn start(profile: Profile) -> std::result::Result<Prof<patronus::smt::SmtLibSolverCtx>, String> {
    let s = match profile.solver {
        "z3" => patronus::smt::Z3.start(None),
        "cvc5" => patronus::smt::CVC5.start(None),
        other => return Err(format!("unknown solver {other}")),
    };
    match s {
        Ok(inner) => Ok(Prof { inner, profile, last_assumptions: vec![], calls: 0 }),
        Err(e) => Err(format!("cannot start {}: {e:?}", profile.solver)),
    }
}

/// Reachability oracle: for every depth j = 0..=k_max, is there an execution from an initial
/// state that satisfies the constraints at steps 0..=j and hits a bad state at step j?
/// Returns the answers per depth (stops after the first `sat`).
pub fn reach_oracle(ctx: &Context, sys: &TransitionSystem, k_max: usize, p: &mut Proc) -> std::result::Result<Vec<Answer>, String> {
    let mut ru = RefUnroll::new(ctx, sys, "O!").map_err(|e| e.0)?;
    let mut out = vec![];
    p.push();
    for j in 0..=k_max {
        let t = ru.step().map_err(|e| e.0)?;
        let _ = p.exchange(&format!("{t}(assert {})", ru.constraints_hold(j)));
        p.push();
        let a = p.check(&format!("(assert {})", ru.some_bad(j)));
        if a != Answer::Timeout {
            p.pop();
        } else {
            return Ok({
                out.push(a);
                out
            });
        }
        let stop = a == Answer::Sat;
        out.push(a);
        if stop {
            break;
        }
    }
    p.pop();
    Ok(out)
}

/// Are the constraints satisfiable at every depth up to k (needed before check_constraints=true)?
pub fn constraints_satisfiable(ctx: &Context, sys: &TransitionSystem, k_max: usize, p: &mut Proc) -> bool {
    let Ok(mut ru) = RefUnroll::new(ctx, sys, "K!") else { return false };
    p.push();
    let mut ok = true;
    for j in 0..=k_max {
        let Ok(t) = ru.step() else {
            ok = false;
            break;
        };
        let a = p.check(&format!("{t}(assert {})", ru.constraints_hold(j)));
        if a != Answer::Sat {
            ok = false;
            break;
        }
    }
    p.pop();
    ok
}

/// Kill solver processes started through patronus (children of this process named z3 / cvc5)
/// that have been running for more than `min_age_s` seconds: the owner is an abandoned thread.
pub fn kill_stray_solvers(min_age_s: f64) -> usize {
    let me = std::process::id();
    let uptime: f64 = std::fs::read_to_string("/proc/uptime").ok().and_then(|s| s.split_whitespace().next().and_then(|x| x.parse().ok())).unwrap_or(0.0);
    let hz = 100.0;
    let mut n = 0;
    let Ok(rd) = std::fs::read_dir("/proc") else { return 0 };
    for e in rd.flatten() {
        let name = e.file_name().to_string_lossy().to_string();
        let Ok(pid) = name.parse::<u32>() else { continue };
        let Ok(stat) = std::fs::read_to_string(format!("/proc/{pid}/stat")) else { continue };
        // pid (comm) state ppid ... starttime is field 22
        let Some(rp) = stat.rfind(')') else { continue };
        let comm = &stat[stat.find('(').map(|i| i + 1).unwrap_or(0)..rp];
        let rest: Vec<&str> = stat[rp + 1..].split_whitespace().collect();
        if rest.len() < 20 {
            continue;
        }
        let ppid: u32 = rest[1].parse().unwrap_or(0);
        let start: f64 = rest[19].parse::<f64>().unwrap_or(0.0) / hz;
        if ppid == me && (comm == "cvc5" || comm == "z3") && uptime - start > min_age_s {
            unsafe {
                libc_kill(pid as i32, 9);
            }
            n += 1;
        }
    }
    n
}

unsafe extern "C" {
    #[link_name = "kill"]
    fn libc_kill(pid: i32, sig: i32) -> i32;
}
