//! C10 — PDR verdicts are sound and definite, with genuine counterexamples.
//! Real code: mc::pdr (all of pdr.rs, encoding.rs, the BMC fall-back) against the installed z3 and
//! cvc5. Oracle: unbounded reachability decided by z3 5.1 on RefUnroll up to the completeness
//! threshold 2^(state bits) - 1.

use crate::c02::{self, Verdict};
use crate::c03;
use crate::live::{self, Profile};
use crate::report::{Report, Role, Tier};
use crate::solver::{Answer, Proc, Which};
use crate::sysgen::{self, GenCfg, SysSpec};
use crate::witness;
use patronus::expr::Context;
use rayon::prelude::*;
use serde_json::json;

pub const SITE: &str = "mc::pdr";

pub fn gen_cfg(tier: Tier) -> GenCfg {
    GenCfg { max_states: 3, max_inputs: 2, max_width: 3, arrays: false, max_depth: 2, div: false, max_state_bits: tier.pick(5, 7), total: false }
}

pub fn spec_for(seed: u64, index: u64, tier: Tier) -> SysSpec {
    if index >= c02::PROBE_BASE {
        // combinational operator probes of C02 (one 1-bit state): a wrong encoding of an operator makes pdr
        // report a failure on a safe probe
        return c02::probe_spec(index - c02::PROBE_BASE).expect("probe index out of range");
    }
    {
        let mut spec = sysgen::generate(seed, "C10", index, &gen_cfg(tier));
        // bad states over inputs only, tied to a counter by a constraint
        // phase bits next to a counter
        if index % 11 == 9 {
            sysgen::phase_counter(&mut spec, index / 11);
        }
        // a constraint gated by a chain of delay registers
        if index % 11 == 7 {
            sysgen::delayed_gate(&mut spec, index / 11);
        }
        if index % 11 == 5 {
            sysgen::input_bad_state_constraint(&mut spec, index / 11, true);
        }
        spec
    }
}

#[derive(Clone, Copy, Debug)]
pub struct PdrCfg {
    pub profile: Profile,
    pub disable_cores: bool,
}

impl PdrCfg {
    pub fn name(&self) -> String {
        format!("{};generalisation={}", self.profile.name(), if self.disable_cores { "off" } else { "on" })
    }
}

pub fn configs(tier: Tier) -> Vec<PdrCfg> {
    let z = |ca: bool, wide: bool| Profile { solver: "z3", check_assuming: ca, widen_cores: wide };
    let c = |ca: bool, wide: bool| Profile { solver: "cvc5", check_assuming: ca, widen_cores: wide };
    let mut v = vec![
        PdrCfg { profile: z(true, false), disable_cores: false },
        PdrCfg { profile: z(true, false), disable_cores: true },
        PdrCfg { profile: z(true, true), disable_cores: false },
        // push/pop only without generalisation: unsat assumptions exist only for check-sat-assuming
        PdrCfg { profile: z(false, false), disable_cores: true },
        PdrCfg { profile: c(true, false), disable_cores: false },
        PdrCfg { profile: c(true, false), disable_cores: true },
    ];
    if tier == Tier::Thorough {
        v.push(PdrCfg { profile: c(true, true), disable_cores: false });
        v.push(PdrCfg { profile: c(false, false), disable_cores: true });
    }
    v
}

fn check_system(rep: &mut Report, seed: u64, index: u64, solver_seed: u64, tier: Tier, p: &mut Proc) {
    let spec = spec_for(seed, index, tier);
    if spec.states.iter().any(|s| !matches!(s.ty, crate::refsmt::Ty::BV(_))) {
        return;
    }
    let cvc5_unsupported = c02::nonliteral_const_array(&spec);
    let bits = spec.state_bits();
    let ct = (1usize << bits) - 1;
    let t0 = std::time::Instant::now();
    let oracle = {
        let mut ctx = Context::default();
        let sys = spec.build(&mut ctx);
        live::reach_oracle(&ctx, &sys, ct, p)
    };
    let oracle_s = t0.elapsed().as_secs_f64();
    let Ok(oracle) = oracle else { return };
    let Some(expect) = c02::expected_verdict(&oracle, ct) else {
        rep.count("oracle_undecided", 1);
        return;
    };
    rep.count("programs", 1);
    *rep.counters.entry(format!("expected_{}", if matches!(expect, Verdict::Fail(_)) { "fail" } else { "success" })).or_insert(0) += 1;
    let probe = spec.pattern == "operator-probe";
    for (ci, cfg) in configs(tier).into_iter().enumerate() {
        // operator probes: z3 with and without generalisation; cvc5 on every fourth
        if probe && !(ci < 2 || (ci == 4 && index % 8 == 0)) {
            continue;
        }
        // quick tier: the cvc5 configurations on every other system
        if tier == Tier::Quick && cfg.profile.solver == "cvc5" && index % 2 == 1 {
            continue;
        }
        if cfg.profile.solver == "cvc5" && cvc5_unsupported {
            rep.count("cvc5_skipped_constant_arrays", 1);
            continue;
        }
        rep.count("obligations", 1);
        let budget = 40 + (oracle_s as u64) * 10;
        let mut out = c03::run_pdr(&spec, cfg.profile, cfg.disable_cores, budget);
        let definite = matches!(out.verdict, Verdict::Success | Verdict::Fail(_));
        if !definite {
            // definite-answer clause: only if it reproduces with a 4x budget
            let again = c03::run_pdr(&spec, cfg.profile, cfg.disable_cores, budget * 4);
            if matches!(again.verdict, Verdict::Success | Verdict::Fail(_)) {
                rep.count("not_reproduced_indefinite_answers", 1);
                out = again;
            } else {
                let class = match &again.verdict {
                    Verdict::Unknown => "indefinite:unknown".to_string(),
                    Verdict::Err(e) => format!("indefinite:err:{}", if e.contains("FromSolver") { "solver-error" } else if e.contains("Parser") { "response-parse-error" } else { "other" }),
                    Verdict::Panic(pm) => format!("indefinite:panic@{}", pm.split(':').take(2).collect::<Vec<_>>().join(":")),
                    Verdict::Hang => "indefinite:no-answer".to_string(),
                    _ => unreachable!(),
                };
                rep.violation(
                    Role::new(SITE, "pdr", &class),
                    format!("system #{index} ({}) [{} solver seed {solver_seed}]: pdr gives no definite answer: {} (first run: {}); the reference decides `{}` in {:.2} s", spec.pattern, cfg.name(), again.verdict.show(), out.verdict.show(), expect.show(), oracle_s),
                    json!({"system": {"index": index, "text": spec.show()}, "config": cfg.name(), "solver_seed": solver_seed, "pdr": again.verdict.show(), "expected": expect.show()}),
                );
                continue;
            }
        }
        let sound = matches!((&expect, &out.verdict), (Verdict::Success, Verdict::Success) | (Verdict::Fail(_), Verdict::Fail(_)));
        if !sound {
            rep.count("disagreements_checked", 1);
            let class = if matches!(out.verdict, Verdict::Success) { "unsound:success-but-bad-reachable" } else { "unsound:fail-but-bad-unreachable" };
            rep.violation(
                Role::new(SITE, "pdr", class),
                format!("system #{index} ({}) [{} solver seed {solver_seed}]: pdr says {}, reference reachability up to the completeness threshold {ct} says {}", spec.pattern, cfg.name(), out.verdict.show(), expect.show()),
                json!({"system": {"index": index, "text": spec.show()}, "config": cfg.name(), "solver_seed": solver_seed, "pdr": out.verdict.show(), "expected": expect.show(),
                    "oracle_per_depth": oracle.iter().map(|a| a.short()).collect::<Vec<_>>()}),
            );
            continue;
        }
        // genuine counterexample clause
        if let Some((w, ctx, sys)) = out.witness {
            let chk = witness::validate(&ctx, &sys, &w, p);
            if !chk.problems.is_empty() {
                rep.violation(
                    Role::new(SITE, "pdr", &format!("witness:{}", chk.problems[0].kind)),
                    format!("system #{index} [{}]: pdr's counterexample is not genuine: {}", cfg.name(), chk.problems.iter().map(|p| format!("{}: {}", p.kind, p.detail)).collect::<Vec<_>>().join(" | ")),
                    json!({"system": {"index": index, "text": spec.show()}, "config": cfg.name(), "solver_seed": solver_seed, "witness": witness::show_witness(&w), "interpreter_replay": witness::interpreter_replay(&ctx, &sys, &w)}),
                );
                continue;
            }
            if !chk.inconclusive.is_empty() {
                rep.inconc(json!({"system": index, "why": chk.inconclusive}));
                continue;
            }
            rep.count("witnesses_validated", 1);
        }
        rep.count("discharged", 1);
        if index % 53 == 0 && cfg.disable_cores {
            rep.sample(json!({"system": spec.show(), "config": cfg.name(), "state_bits": bits, "completeness_threshold": ct, "pdr": out.verdict.show(), "reference": expect.show()}), 8);
        }
    }
}

pub fn run(tier: Tier, seed: u64, replay: Option<serde_json::Value>) -> i32 {
    let mut rep = Report::new("C10", tier, seed, "translation_validation");
    let n = tier.pick(220u64, 700u64);
    let mut indices: Vec<u64> = (0..n).collect();
    let mut solver_seeds: Vec<u64> = tier.pick(vec![1], vec![1, 2, 3]);
    for pi in 0..c02::probe_count() {
        if pi % 2 == 0 || pi % 8 == 1 {
            indices.push(c02::PROBE_BASE + 2000 + pi);
            if tier == Tier::Thorough {
                indices.push(c02::PROBE_BASE + 3000 + pi);
            }
        }
    }
    if let Some(r) = &replay {
        rep.write_files = false;
        indices = r["replay"]["system"]["index"].as_u64().map(|i| vec![i]).unwrap_or_default();
        solver_seeds = vec![r["replay"]["solver_seed"].as_u64().unwrap_or(1)];
    }
    for ss in solver_seeds.iter() {
        let part = c03::with_solver_seed(*ss, || {
            let parts: Vec<Report> = indices
                .par_chunks(6)
                .map(|chunk| {
                    let mut r = Report::new("C10", tier, seed, "translation_validation");
                    let mut p = Proc::new(Which::Z3New, 30_000);
                    for &i in chunk {
                        check_system(&mut r, seed, i, *ss, tier, &mut p);
                    }
                    r.count("solver_time_ms", p.solver_time.as_millis() as u64);
                    r.count("solver_queries", p.queries);
                    r
                })
                .collect();
            parts
        });
        match part {
            Ok(parts) => {
                for p in parts {
                    rep.merge(p);
                }
            }
            Err(e) => rep.undecided.push(format!("cannot install solver shims: {e}")),
        }
    }
    live::kill_stray_solvers(0.0);
    let _ = Answer::Sat;
    rep.extra.insert("bounds".into(), json!({"generated_systems": n, "operator_probes": "combinational form of the probes of C02 (complete function tables, one 1-bit state)", "state_bits_max": gen_cfg(tier).max_state_bits, "inputs": "0..2", "patterns": sysgen::PATTERNS,
        "configurations": configs(tier).iter().map(|c| c.name()).collect::<Vec<_>>(), "solver_seeds": solver_seeds,
        "oracle": "reference unrolling decided by z3 5.1 for every depth up to 2^bits - 1 (all executions of a finite system)"}));
    rep.extra.insert("functions_encoded".into(), json!(["mc::pdr", "mc::UnrollSmtEncoding", "mc::bmc (fall-back)", "SmtLibSolverCtx::get_unsat_assumptions / parse_get_unsat_assumptions_response"]));
    rep.extra.insert("outside_claim".into(), json!(["systems with array states (todo!() in pdr)", "more than 7 state bits", "Bitwuzla / Yices back ends", "solver answer choices other than those of the installed solvers under the listed seeds and the full-core widening"]));
    rep.assumptions = vec!["RefUnroll states the btor2 execution semantics; a finite system with b state bits has completeness threshold 2^b - 1".into()];
    rep.finish()
}
