//! RefUnroll – reference unrolling of a TransitionSystem with btor2 semantics:
//! * a state with an init expression has that value at step 0 (init expressions are evaluated
//!   over step-0 values); otherwise it is free at step 0;
//! * a state with a next function takes it; a state without one is free at every step;
//! * inputs are free at every step.
//! Everything is step-indexed constants plus assertions (order independent).

use crate::refsmt::{IllTyped, RefEnc, Ty, sort};
use patronus::expr::{Context, ExprRef};
use patronus::system::TransitionSystem;
use std::collections::HashMap;
use std::fmt::Write as _;

pub struct RefUnroll<'a> {
    pub ctx: &'a Context,
    pub sys: &'a TransitionSystem,
    /// name prefix, allows several copies in one query
    pub p: String,
    pub state_tys: Vec<Ty>,
    pub input_tys: Vec<Ty>,
    /// number of steps emitted so far (steps 0..steps-1 exist)
    pub steps: usize,
    /// per step: term of every constraint / bad / output
    pub constraints: Vec<Vec<String>>,
    pub bads: Vec<Vec<String>>,
    pub outputs: Vec<Vec<String>>,
    pub nonvalue_const_array: bool,
    /// extra roots whose value per step is wanted (term per step)
    pub extra_roots: Vec<ExprRef>,
    pub extras: Vec<Vec<String>>,
    /// if false, step 0 is an arbitrary state (no init applied)
    pub apply_init: bool,
}

impl<'a> RefUnroll<'a> {
    pub fn new(ctx: &'a Context, sys: &'a TransitionSystem, prefix: &str) -> Result<Self, IllTyped> {
        let mut state_tys = vec![];
        for s in sys.states.iter() {
            state_tys.push(RefEnc::type_of(ctx, s.symbol)?);
        }
        let mut input_tys = vec![];
        for i in sys.inputs.iter() {
            input_tys.push(RefEnc::type_of(ctx, *i)?);
        }
        Ok(RefUnroll {
            ctx,
            sys,
            p: prefix.to_string(),
            state_tys,
            input_tys,
            steps: 0,
            constraints: vec![],
            bads: vec![],
            outputs: vec![],
            nonvalue_const_array: false,
            extra_roots: vec![],
            extras: vec![],
            apply_init: true,
        })
    }

    pub fn st(&self, i: usize, k: usize) -> String {
        format!("{}st!{i}@{k}", self.p)
    }
    pub fn inp(&self, j: usize, k: usize) -> String {
        format!("{}in!{j}@{k}", self.p)
    }

    fn enc_at(&self, k: usize) -> RefEnc<'a> {
        let mut r = RefEnc::new(self.ctx, &format!("{}r{k}", self.p));
        r.sym_prefix = format!("{}free{k}!", self.p);
        let mut m = HashMap::new();
        for (i, s) in self.sys.states.iter().enumerate() {
            m.insert(s.symbol, self.st(i, k));
        }
        for (j, s) in self.sys.inputs.iter().enumerate() {
            // an input that is also a state symbol keeps the state meaning
            m.entry(*s).or_insert(self.inp(j, k));
        }
        r.sym_map = m;
        r
    }

    /// Emits the text of the next step: declarations of that step's states and inputs, the
    /// definitions of all expressions evaluated in that step, the init (step 0) or transition
    /// (step k > 0, from k-1) equalities.
    pub fn step(&mut self) -> Result<String, IllTyped> {
        let k = self.steps;
        let mut out = String::new();
        for (i, t) in self.state_tys.iter().enumerate() {
            writeln!(out, "(declare-const {} {})", self.st(i, k), sort(*t)).unwrap();
        }
        for (j, t) in self.input_tys.iter().enumerate() {
            writeln!(out, "(declare-const {} {})", self.inp(j, k), sort(*t)).unwrap();
        }
        let mut r = self.enc_at(k);
        let mut eqs = String::new();
        if k == 0 && self.apply_init {
            for (i, s) in self.sys.states.iter().enumerate() {
                if let Some(init) = s.init {
                    let (t, ty) = r.enc(init)?;
                    if ty != self.state_tys[i] {
                        return Err(IllTyped(format!("init of state {i} has type {ty:?}, state {:?}", self.state_tys[i])));
                    }
                    writeln!(eqs, "(assert (= {} {t}))", self.st(i, 0)).unwrap();
                }
            }
        }
        let mut cs = vec![];
        for c in self.sys.constraints.iter() {
            let (t, ty) = r.enc(*c)?;
            if ty != Ty::BV(1) {
                return Err(IllTyped("constraint is not 1 bit".into()));
            }
            cs.push(t);
        }
        let mut bs = vec![];
        for b in self.sys.bad_states.iter() {
            let (t, ty) = r.enc(*b)?;
            if ty != Ty::BV(1) {
                return Err(IllTyped("bad state is not 1 bit".into()));
            }
            bs.push(t);
        }
        let mut os = vec![];
        for o in self.sys.outputs.iter() {
            os.push(r.enc(o.expr)?.0);
        }
        let mut xs = vec![];
        for x in self.extra_roots.iter() {
            xs.push(r.enc(*x)?.0);
        }
        // next-state functions evaluated in step k define the states of step k+1: emitted as
        // named terms now, the equality is asserted when step k+1 is created
        let mut nexts = vec![];
        for (i, s) in self.sys.states.iter().enumerate() {
            match s.next {
                Some(n) => {
                    let (t, ty) = r.enc(n)?;
                    if ty != self.state_tys[i] {
                        return Err(IllTyped(format!("next of state {i} has type {ty:?}")));
                    }
                    nexts.push(Some(t));
                }
                None => nexts.push(None),
            }
        }
        // free symbols that are neither inputs nor states (dangling symbols) are declared
        out.push_str(&r.decl_text());
        out.push_str(&r.defs);
        out.push_str(&eqs);
        for (i, n) in nexts.iter().enumerate() {
            if let Some(t) = n {
                // store under a stable name so that the next step can refer to it
                writeln!(out, "(define-fun {}next!{i}@{k} () {} {t})", self.p, sort(self.state_tys[i])).unwrap();
            }
        }
        if k > 0 {
            for (i, s) in self.sys.states.iter().enumerate() {
                if s.next.is_some() {
                    writeln!(out, "(assert (= {} {}next!{i}@{}))", self.st(i, k), self.p, k - 1).unwrap();
                }
            }
        }
        self.nonvalue_const_array |= r.nonvalue_const_array;
        self.constraints.push(cs);
        self.bads.push(bs);
        self.outputs.push(os);
        self.extras.push(xs);
        self.steps += 1;
        Ok(out)
    }

    /// conjunction of all constraints of step k as a Bool term
    pub fn constraints_hold(&self, k: usize) -> String {
        if self.constraints[k].is_empty() {
            "true".into()
        } else {
            format!("(and true {})", self.constraints[k].iter().map(|c| format!("(= {c} #b1)")).collect::<Vec<_>>().join(" "))
        }
    }
    /// disjunction of all bad states of step k as a Bool term
    pub fn some_bad(&self, k: usize) -> String {
        if self.bads[k].is_empty() {
            "false".into()
        } else {
            format!("(or false {})", self.bads[k].iter().map(|c| format!("(= {c} #b1)")).collect::<Vec<_>>().join(" "))
        }
    }
}
