//! C02 — bounded model checking returns the exact verdict up to the bound.
//! Real code: mc::bmc with UnrollSmtEncoding, check_assuming, SmtLibSolverCtx and the real text
//! protocol against the installed z3 and cvc5. Oracle: reachability decided by z3 5.1 on RefUnroll.

use crate::live::{self, PROFILES, Profile};
use crate::report::{Report, Role, Tier};
use crate::solver::{Answer, Proc, Which};
use crate::sysgen::{self, GenCfg, SysSpec};
use patronus::expr::Context;
use patronus::mc::{ModelCheckResult, bmc};
use rayon::prelude::*;
use serde_json::json;
use std::time::Duration;

pub const SITE: &str = "mc::bmc (UnrollSmtEncoding, check_assuming, SmtLibSolverCtx)";

pub fn gen_cfg() -> GenCfg {
    GenCfg { max_states: 3, max_inputs: 2, max_width: 4, arrays: true, max_depth: 2, div: true, max_state_bits: 10, total: false }
}

pub fn spec_for(seed: u64, index: u64) -> SysSpec {
    if index >= PROBE_BASE {
        return probe_spec(index - PROBE_BASE).expect("probe index out of range");
    }
    {
        let mut spec = sysgen::generate(seed, "C02", index, &gen_cfg());
        // bad states over inputs only, tied to a counter by a constraint
        // phase bits next to a counter
        if index % 11 == 9 {
            sysgen::phase_counter(&mut spec, index / 11);
        }
        // a constraint gated by a chain of delay registers
        if index % 11 == 7 {
            sysgen::delayed_gate(&mut spec, index / 11);
        }
        if index % 11 == 5 {
            sysgen::input_bad_state_constraint(&mut spec, index / 11, false);
        }
        spec
    }
}

// ---------------------------------------------------------------------------------------------
// operator probes: systems whose verdict depends on the *complete* function table of one operator
// application f(a, b) at a small width. Added after an independently seeded change (a rebuilt `srem`
// turned into `smod` by the per-step substitution) showed that random systems rarely make a verdict
// hinge on the few operand pairs where two similar operators differ.
//   inputs a, b : bv<w>;  states  r (next = f(a,b)),  ta (next = a),  tb (next = b),  started (init 0, next 1)
//   bad0 = f(a,b) != TABLE(a,b)                       (combinational use, every step)
//   bad1 = started && r != TABLE(ta,tb)               (use through a register: per-step substitution)
// TABLE is a nested ite over literals computed by the harness' own big-integer evaluator; it is right for
// every operand pair, so the expected verdict is Success ("safe"), or has one deliberately wrong entry
// ("unsafe", expected Fail@0 - the vacuity guard of the probe).

pub const PROBE_BASE: u64 = 1_000_000;

use crate::bigeval::{self, Val};
use crate::refsmt::{Op, Ty};
use crate::shapes::Sh;
use num_bigint::BigUint;

fn sh_eval(e: &Sh, a: &BigUint, b: &BigUint) -> Val {
    match e {
        Sh::Sym(0, Ty::BV(w)) => Val::BV(a.clone(), *w),
        Sh::Sym(_, Ty::BV(w)) => Val::BV(b.clone(), *w),
        Sh::Sym(..) => unreachable!("probes have bit-vector inputs only"),
        Sh::Lit(w, v) => Val::BV(v.clone(), *w),
        Sh::Op(op, p, k) => {
            let kv: Vec<Val> = k.iter().map(|c| sh_eval(c, a, b)).collect();
            bigeval::eval_op(*op, *p, &kv)
        }
    }
}

pub fn probe_exprs(w: u32) -> Vec<(String, Sh)> {
    let a = || Sh::Sym(0, Ty::BV(w));
    let b = || Sh::Sym(1, Ty::BV(w));
    let o = |op: Op, k: Vec<Sh>| Sh::Op(op, [0, 0], k);
    let op2 = |op: Op, p: [u32; 2], k: Vec<Sh>| Sh::Op(op, p, k);
    let bit0 = |x: Sh| op2(Op::Slice, [0, 0], vec![x]);
    let mut v: Vec<(String, Sh)> = vec![];
    for op in [Op::And, Op::Or, Op::Xor, Op::Shl, Op::Ashr, Op::Lshr, Op::Add, Op::Mul, Op::Sdiv, Op::Udiv, Op::Smod, Op::Srem, Op::Urem, Op::Sub, Op::Equal, Op::Ugt, Op::Sgt, Op::Uge, Op::Sge, Op::Concat] {
        v.push((op.name().to_string(), o(op, vec![a(), b()])));
    }
    v.push(("not".into(), o(Op::Not, vec![a()])));
    v.push(("neg".into(), o(Op::Neg, vec![a()])));
    v.push(("zext".into(), op2(Op::ZeroExt, [2, 0], vec![a()])));
    v.push(("sext".into(), op2(Op::SignExt, [2, 0], vec![a()])));
    v.push(("slice-hi".into(), op2(Op::Slice, [w - 1, 1], vec![a()])));
    v.push(("slice-lo".into(), op2(Op::Slice, [w - 2, 0], vec![a()])));
    v.push(("ite".into(), o(Op::Ite, vec![bit0(b()), a(), o(Op::Neg, vec![a()])])));
    // 1-bit (Bool) values in bit-vector positions and the other way round
    v.push(("sext-of-bit".into(), op2(Op::SignExt, [w - 1, 0], vec![bit0(a())])));
    v.push(("zext-of-bit".into(), op2(Op::ZeroExt, [w - 1, 0], vec![bit0(a())])));
    v.push(("sext-of-cmp".into(), op2(Op::SignExt, [2, 0], vec![o(Op::Ugt, vec![a(), b()])])));
    v.push(("concat-cmp".into(), o(Op::Concat, vec![o(Op::Sgt, vec![a(), b()]), a()])));
    v.push(("eq-of-cmps".into(), o(Op::Equal, vec![o(Op::Ugt, vec![a(), b()]), o(Op::Sgt, vec![a(), b()])])));
    v.push(("not-cmp".into(), o(Op::Not, vec![o(Op::Uge, vec![a(), b()])])));
    v.push(("and-cmps".into(), o(Op::And, vec![o(Op::Ugt, vec![a(), b()]), o(Op::Sge, vec![a(), b()])])));
    v.push(("xor-cmps".into(), o(Op::Xor, vec![o(Op::Uge, vec![a(), b()]), o(Op::Sge, vec![a(), b()])])));
    v.push(("implies".into(), o(Op::Implies, vec![o(Op::Ugt, vec![a(), b()]), o(Op::Sgt, vec![a(), b()])])));
    v.push(("ite-bool".into(), o(Op::Ite, vec![o(Op::Ugt, vec![a(), b()]), o(Op::Sge, vec![a(), b()]), o(Op::Equal, vec![a(), b()])])));
    v.push(("neg-bit".into(), o(Op::Neg, vec![bit0(a())])));
    v.push(("add-bits".into(), o(Op::Add, vec![bit0(a()), bit0(b())])));
    v.push(("sge-bits".into(), o(Op::Sge, vec![bit0(a()), bit0(b())])));
    v.push(("ashr-bits".into(), o(Op::Ashr, vec![bit0(a()), bit0(b())])));
    // arrays: index width 2, data width w
    let lo2 = |x: Sh| op2(Op::Slice, [1, 0], vec![x]);
    let mem = || o(Op::ArrayStore, vec![op2(Op::ArrayConst, [2, w], vec![a()]), lo2(b()), o(Op::Neg, vec![a()])]);
    v.push(("array-read-store-const".into(), o(Op::ArrayRead, vec![mem(), lo2(a())])));
    v.push(("array-eq".into(), o(Op::ArrayEqual, vec![mem(), op2(Op::ArrayConst, [2, w], vec![a()])])));
    v.push(("array-ite".into(), o(Op::ArrayRead, vec![o(Op::ArrayIte, vec![bit0(a()), mem(), op2(Op::ArrayConst, [2, w], vec![b()])]), lo2(b())])));
    v
}

pub fn probe_count() -> u64 {
    probe_exprs(3).len() as u64 * 2
}

/// probe index: 2*i = safe variant of expression i at width 3, 2*i+1 = unsafe variant; + 1000 = width 4;
/// + 2000 = combinational form (one 1-bit state, bad0 only: used for pdr, whose completeness threshold
/// must stay small)
pub fn probe_spec(pi: u64) -> Option<SysSpec> {
    let comb = pi >= 2000;
    let pi = pi % 2000;
    let w = if pi >= 1000 { 4 } else { 3 };
    let i = ((pi % 1000) / 2) as usize;
    let unsafe_variant = pi % 2 == 1;
    let exprs = probe_exprs(w);
    let (name, f) = exprs.get(i)?.clone();
    let wo = f.ty().bv()?;
    // function table by the harness' evaluator
    let mut entries: Vec<(BigUint, BigUint)> = vec![];
    for x in 0..(1u32 << w) {
        for y in 0..(1u32 << w) {
            let (xa, yb) = (BigUint::from(x), BigUint::from(y));
            let val = match sh_eval(&f, &xa, &yb) {
                Val::BV(v, _) => v,
                _ => return None,
            };
            entries.push((BigUint::from((x << w) | y), val));
        }
    }
    if unsafe_variant {
        let k = (i * 7 + 3) % entries.len();
        entries[k].1 = (&entries[k].1 + 1u32) % (BigUint::from(1u32) << wo);
    }
    let table = |a: Sh, b: Sh| -> Sh {
        let key = Sh::Op(Op::Concat, [0, 0], vec![a, b]);
        let mut t = Sh::Lit(wo, entries[0].1.clone());
        for (k, v) in entries.iter().skip(1) {
            t = Sh::Op(Op::Ite, [0, 0], vec![Sh::Op(Op::Equal, [0, 0], vec![key.clone(), Sh::Lit(2 * w, k.clone())]), Sh::Lit(wo, v.clone()), t]);
        }
        t
    };
    let (a, b) = (Sh::Sym(0, Ty::BV(w)), Sh::Sym(1, Ty::BV(w)));
    let st = |i: u8, t: Ty| Sh::Sym(sysgen::STATE_BASE + i, t);
    let mut spec = SysSpec { name: format!("probe_{name}_{w}{}", if unsafe_variant { "_unsafe" } else { "" }), pattern: "operator-probe", ..Default::default() };
    spec.inputs = vec![Ty::BV(w), Ty::BV(w)];
    spec.anon_inputs = vec![false, false];
    spec.states = vec![
        sysgen::StateSpec { ty: Ty::BV(wo), init: None, next: Some(f.clone()) },
        sysgen::StateSpec { ty: Ty::BV(w), init: None, next: Some(a.clone()) },
        sysgen::StateSpec { ty: Ty::BV(w), init: None, next: Some(b.clone()) },
        sysgen::StateSpec { ty: Ty::BV(1), init: Some(Sh::Lit(1, BigUint::from(0u32))), next: Some(Sh::Lit(1, BigUint::from(1u32))) },
    ];
    let ne = |x: Sh, y: Sh| Sh::Op(Op::Not, [0, 0], vec![Sh::Op(Op::Equal, [0, 0], vec![x, y])]);
    if comb {
        spec.name.push_str("_comb");
        spec.states = vec![spec.states[3].clone()];
        spec.bads.push(ne(f.clone(), table(a, b)));
        return Some(spec);
    }
    spec.bads.push(ne(f.clone(), table(a, b)));
    spec.bads.push(Sh::Op(Op::And, [0, 0], vec![st(3, Ty::BV(1)), ne(st(0, Ty::BV(wo)), table(st(1, Ty::BV(w)), st(2, Ty::BV(w))))]));
    Some(spec)
}

#[derive(Clone, Debug, PartialEq, Eq)]
pub enum Verdict {
    Success,
    Fail(usize),
    Unknown,
    Err(String),
    Panic(String),
    Hang,
}

impl Verdict {
    pub fn show(&self) -> String {
        match self {
            Verdict::Success => "Success".into(),
            Verdict::Fail(k) => format!("Fail@{k}"),
            Verdict::Unknown => "Unknown".into(),
            Verdict::Err(e) => format!("Err({e})"),
            Verdict::Panic(e) => format!("Panic({e})"),
            Verdict::Hang => "no answer within the time limit".into(),
        }
    }
}

/// run `f` on its own thread; None if it does not return in time (the thread is abandoned)
pub fn with_timeout<T: Send + 'static>(d: Duration, f: impl FnOnce() -> T + Send + 'static) -> Option<T> {
    let (tx, rx) = std::sync::mpsc::channel();
    std::thread::Builder::new()
        .stack_size(64 << 20)
        .spawn(move || {
            // runs under its own time limit: not a client of the harness watchdog
            crate::panics::exempt_this_thread();
            let _ = tx.send(f());
        })
        .ok()?;
    rx.recv_timeout(d).ok()
}

pub struct RunOut {
    pub verdict: Verdict,
    pub witness: Option<(patronus::mc::Witness, Context, patronus::system::TransitionSystem)>,
}

/// one real bmc run in a fresh context
pub fn run_bmc(spec: &SysSpec, profile: Profile, individually: bool, check_constraints: bool, simplify: bool, k_max: u64, keep_witness: bool) -> RunOut {
    let spec = spec.clone();
    let r = with_timeout(Duration::from_secs(90), move || {
        let mut ctx = Context::default();
        let mut sys = spec.build(&mut ctx);
        let res = crate::panics::guarded(|| {
            if simplify {
                patronus::system::transform::simplify_expressions(&mut ctx, &mut sys);
            }
            let mut smt = live::start(profile).map_err(|e| format!("start: {e}"))?;
            bmc(&mut ctx, &mut smt, &sys, check_constraints, individually, k_max).map_err(|e| format!("{e:?}"))
        });
        match res {
            Ok(Ok(ModelCheckResult::Success)) => RunOut { verdict: Verdict::Success, witness: None },
            Ok(Ok(ModelCheckResult::Unknown)) => RunOut { verdict: Verdict::Unknown, witness: None },
            Ok(Ok(ModelCheckResult::Fail(w))) => {
                let k = w.inputs.len().saturating_sub(1);
                RunOut { verdict: Verdict::Fail(k), witness: if keep_witness { Some((w, ctx, sys)) } else { None } }
            }
            Ok(Err(e)) => RunOut { verdict: Verdict::Err(e.chars().take(300).collect()), witness: None },
            Err((loc, msg)) => RunOut { verdict: Verdict::Panic(format!("{loc}: {}", msg.chars().take(200).collect::<String>())), witness: None },
        }
    });
    r.unwrap_or_else(|| {
        live::kill_stray_solvers(85.0);
        RunOut { verdict: Verdict::Hang, witness: None }
    })
}

pub fn expected_verdict(oracle: &[Answer], k_max: usize) -> Option<Verdict> {
    for (j, a) in oracle.iter().enumerate().take(k_max + 1) {
        match a {
            Answer::Sat => return Some(Verdict::Fail(j)),
            Answer::Unsat => {}
            _ => return None,
        }
    }
    if oracle.len() > k_max || oracle.iter().all(|a| *a == Answer::Unsat) && oracle.len() == k_max + 1 { Some(Verdict::Success) } else { None }
}

pub fn nonliteral_const_array(spec: &SysSpec) -> bool {
    use crate::refsmt::Op;
    use crate::shapes::Sh;
    fn has(e: &Sh) -> bool {
        match e {
            // cvc5 1.0: non-literal values under `as const` are rejected, and equalities between
            // write chains over different constant arrays are unsupported by its array solver
            Sh::Op(Op::ArrayConst, _, _) => true,
            Sh::Op(_, _, k) => k.iter().any(has),
            _ => false,
        }
    }
    spec.states.iter().any(|s| s.init.as_ref().map(has).unwrap_or(false) || s.next.as_ref().map(has).unwrap_or(false))
        || spec.outputs.iter().any(|o| has(&o.1))
        || spec.bads.iter().any(has)
        || spec.constraints.iter().any(has)
}

fn err_kind(e: &str) -> &'static str {
    if e.contains("unknown constant") || e.contains("not declared") {
        "solver-error:unknown-symbol"
    } else if e.contains("already") || e.contains("redecl") {
        "solver-error:double-definition"
    } else if e.contains("FromSolver") {
        "solver-error:other"
    } else if e.contains("Parser") {
        "response-parse-error"
    } else {
        "other"
    }
}

fn check_system(rep: &mut Report, seed: u64, index: u64, tier: Tier, oracle_proc: &mut Proc) {
    let spec = spec_for(seed, index);
    rep.count("programs", 1);
    let bounds: Vec<u64> = match (tier, spec.pattern) {
        (_, "operator-probe") => vec![2],
        (Tier::Quick, "counter-deep") => vec![2, 9],
        (Tier::Quick, _) => vec![1, 4],
        (Tier::Thorough, "counter-deep") => vec![1, 5, 12],
        (Tier::Thorough, _) => vec![1, 3, 7, 12],
    };
    let kmax = *bounds.iter().max().unwrap() as usize;
    let (oracle, cons_ok) = {
        let mut ctx = Context::default();
        let sys = spec.build(&mut ctx);
        let o = live::reach_oracle(&ctx, &sys, kmax, oracle_proc);
        let c = live::constraints_satisfiable(&ctx, &sys, kmax, oracle_proc);
        (o, c)
    };
    let oracle = match oracle {
        Ok(o) => o,
        Err(e) => {
            rep.undecided.push(format!("oracle failed on generated system #{index}: {e}"));
            return;
        }
    };
    if spec.pattern == "operator-probe" {
        // the table (big-integer evaluator) and RefUnroll (SMT-LIB semantics) are two independent references
        let unsafe_variant = spec.name.ends_with("_unsafe");
        match expected_verdict(&oracle, 2) {
            Some(Verdict::Success) if !unsafe_variant => {}
            Some(Verdict::Fail(0)) if unsafe_variant => {}
            other => {
                rep.undecided.push(format!("ENCODING-ERROR: probe {} - the harness' function table and the reference unrolling disagree ({:?})", spec.name, other.map(|v| v.show())));
                return;
            }
        }
    }
    for &k in bounds.iter() {
        let Some(expect) = expected_verdict(&oracle, k as usize) else {
            rep.inconc(json!({"system": index, "bound": k, "why": format!("oracle undecided: {:?}", oracle.iter().map(|a| a.short()).collect::<Vec<_>>())}));
            rep.count("obligations", 1);
            continue;
        };
        *rep.counters.entry(format!("expected_{}", if matches!(expect, Verdict::Fail(_)) { "fail" } else { "success" })).or_insert(0) += 1;
        let full_matrix = tier == Tier::Thorough || k == *bounds.iter().max().unwrap();
        for (pi, profile) in PROFILES.iter().enumerate() {
            // cvc5 1.0 only accepts values under the non-standard `as const`; systems with a non-literal
            // constant array are judged with z3 only
            if profile.solver == "cvc5" && nonliteral_const_array(&spec) {
                rep.count("cvc5_skipped_nonliteral_const_array", 1);
                continue;
            }
            for individually in [false, true] {
                for simplify in [false, true] {
                    // quick tier: the full profile x mode x simplify matrix at the larger bound, the four
                    // profiles (joint, unsimplified) at the smaller one
                    if !full_matrix && (individually || simplify) {
                        continue;
                    }
                    // operator probes, quick tier: four profiles (joint, unsimplified) + first profile individually + first profile simplified
                    if tier == Tier::Quick && spec.pattern == "operator-probe" && (individually || simplify) && (pi != 0 || (individually && simplify)) {
                        continue;
                    }
                    // check_constraints only where the constraints are satisfiable at every step (documented assert otherwise)
                    let check_constraints = cons_ok && (index + pi as u64) % 2 == 0;
                    rep.count("obligations", 1);
                    let out = run_bmc(&spec, *profile, individually, check_constraints, simplify, k, false);
                    if out.verdict == expect {
                        rep.count("discharged", 1);
                        if index % 97 == 0 && pi == 0 && !individually && !simplify {
                            rep.sample(json!({"system": spec.show(), "bound": k, "oracle": oracle.iter().map(|a| a.short()).collect::<Vec<_>>(), "bmc": out.verdict.show()}), 8);
                        }
                        continue;
                    }
                    let class = match (&expect, &out.verdict) {
                        (Verdict::Fail(_), Verdict::Success) => "missed-fail".to_string(),
                        (Verdict::Success, Verdict::Fail(_)) => "spurious-fail".to_string(),
                        (Verdict::Fail(a), Verdict::Fail(b)) => format!("wrong-step:{}", if b > a { "late" } else { "early" }),
                        (_, Verdict::Err(e)) => format!("err:{}", err_kind(e)),
                        (_, Verdict::Panic(p)) => format!("panic@{}", p.split(':').take(2).collect::<Vec<_>>().join(":")),
                        (_, Verdict::Hang) => "hang".to_string(),
                        _ => "unknown".to_string(),
                    };
                    rep.count("disagreements_checked", 1);
                    rep.violation(
                        Role::new(SITE, &format!("{};{}", profile.name(), if individually { "individual" } else { "joint" }), &class),
                        format!(
                            "system #{index} ({}) bound {k} [{} {} simplify={simplify} check_constraints={check_constraints}]: bmc says {}, reference reachability says {} (per depth: {:?})",
                            spec.pattern,
                            profile.name(),
                            if individually { "individual" } else { "joint" },
                            out.verdict.show(),
                            expect.show(),
                            oracle.iter().map(|a| a.short()).collect::<Vec<_>>()
                        ),
                        json!({"system": {"index": index, "seed": seed, "text": spec.show()}, "bound": k, "profile": profile.name(), "individually": individually, "simplify": simplify,
                            "check_constraints": check_constraints, "bmc": out.verdict.show(), "expected": expect.show()}),
                    );
                }
            }
        }
    }
}

pub fn run(tier: Tier, seed: u64, replay: Option<serde_json::Value>) -> i32 {
    let mut rep = Report::new("C02", tier, seed, "translation_validation");
    let n = tier.pick(160u64, 800u64);
    let mut indices: Vec<u64> = (0..n).collect();
    // operator probes: every safe variant, every 4th unsafe one; width 3 (quick), widths 3 and 4 (thorough)
    for pi in 0..probe_count() {
        if pi % 2 == 0 || pi % 8 == 1 {
            indices.push(PROBE_BASE + pi);
            if tier == Tier::Thorough {
                indices.push(PROBE_BASE + 1000 + pi);
            }
        }
    }
    if let Some(r) = &replay {
        rep.write_files = false;
        indices = r["replay"]["system"]["index"].as_u64().map(|i| vec![i]).unwrap_or_default();
    }
    for p in PROFILES.iter() {
        if live::start(*p).is_err() {
            rep.undecided.push(format!("cannot start solver for profile {}", p.name()));
        }
    }
    let parts: Vec<Report> = indices
        .par_chunks(8)
        .map(|chunk| {
            let mut r = Report::new("C02", tier, seed, "translation_validation");
            let mut oracle_proc = Proc::new(Which::Z3New, 20_000);
            for &i in chunk {
                check_system(&mut r, seed, i, tier, &mut oracle_proc);
            }
            r.count("solver_time_ms", oracle_proc.solver_time.as_millis() as u64);
            r.count("solver_queries", oracle_proc.queries);
            r
        })
        .collect();
    for p in parts {
        rep.merge(p);
    }
    rep.extra.insert("bounds".into(), json!({"generated_systems": n, "patterns": sysgen::PATTERNS, "operator_probes": {"expressions": probe_exprs(3).iter().map(|(n, _)| n.clone()).collect::<Vec<_>>(), "widths": tier.pick("3", "3 and 4"), "coverage": "complete function table over both operands, combinational and through a register"}, "bmc_bounds": tier.pick("k in {1,4} ({2,9} for counters)", "k in {1,3,7,12}"),
        "profiles": PROFILES.iter().map(|p| p.name()).collect::<Vec<_>>(), "modes": ["joint", "individual"], "simplify": [false, true],
        "note": "supports_const_array is not consulted anywhere in patronus (grep), it spans no behaviour"}));
    rep.extra.insert("functions_encoded".into(), json!(["mc::bmc", "mc::UnrollSmtEncoding", "mc::check_assuming / check_assuming_end", "smt::SmtLibSolverCtx (text protocol, z3 4.8.12 and cvc5 1.0)", "system::transform::simplify_expressions"]));
    rep.extra.insert("outside_claim".into(), json!(["Bitwuzla / Yices back ends (not installed)", "bounds above 12", "systems beyond the grammar's size", "the tools/mc command line"]));
    rep.assumptions = vec![
        "RefUnroll states the btor2 execution semantics; z3 5.1 decides the reference reachability queries (all executions of length <= k)".into(),
        "the live solvers answer the scripts they are sent correctly (C04 decides that the scripts mean what the system means)".into(),
    ];
    live::kill_stray_solvers(0.0);
    rep.finish()
}
