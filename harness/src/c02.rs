//! C02 — bounded model checking returns the exact verdict up to the bound.
//! Real code: mc::bmc with UnrollSmtEncoding, check_assuming, SmtLibSolverCtx and the real text
//! protocol against the installed z3 and cvc5. Oracle: reachability decided by z3 5.1 on RefUnroll.

use crate::live::{self, PROFILES, Profile};
use crate::report::{Report, Role, Tier};
use crate::solver::{Answer, Proc, Which};
use crate::sysgen::{self, GenCfg, SysSpec};
use patronus::expr::Context;
use patronus::mc::{ModelCheckResult, bmc};
use rayon::prelude::*;
use serde_json::json;
use std::time::Duration;

pub const SITE: &str = "mc::bmc (UnrollSmtEncoding, check_assuming, SmtLibSolverCtx)";

pub fn gen_cfg() -> GenCfg {
    GenCfg { max_states: 3, max_inputs: 2, max_width: 4, arrays: true, max_depth: 2, div: false, max_state_bits: 10, total: false }
}

pub fn spec_for(seed: u64, index: u64) -> SysSpec {
    sysgen::generate(seed, "C02", index, &gen_cfg())
}

#[derive(Clone, Debug, PartialEq, Eq)]
pub enum Verdict {
    Success,
    Fail(usize),
    Unknown,
    Err(String),
    Panic(String),
    Hang,
}

impl Verdict {
    pub fn show(&self) -> String {
        match self {
            Verdict::Success => "Success".into(),
            Verdict::Fail(k) => format!("Fail@{k}"),
            Verdict::Unknown => "Unknown".into(),
            Verdict::Err(e) => format!("Err({e})"),
            Verdict::Panic(e) => format!("Panic({e})"),
            Verdict::Hang => "no answer within the time limit".into(),
        }
    }
}

/// run `f` on its own thread; None if it does not return in time (the thread is abandoned)
pub fn with_timeout<T: Send + 'static>(d: Duration, f: impl FnOnce() -> T + Send + 'static) -> Option<T> {
    let (tx, rx) = std::sync::mpsc::channel();
    std::thread::Builder::new()
        .stack_size(64 << 20)
        .spawn(move || {
            let _ = tx.send(f());
        })
        .ok()?;
    rx.recv_timeout(d).ok()
}

pub struct RunOut {
    pub verdict: Verdict,
    pub witness: Option<(patronus::mc::Witness, Context, patronus::system::TransitionSystem)>,
}

/// one real bmc run in a fresh context
pub fn run_bmc(spec: &SysSpec, profile: Profile, individually: bool, check_constraints: bool, simplify: bool, k_max: u64, keep_witness: bool) -> RunOut {
    let spec = spec.clone();
    let r = with_timeout(Duration::from_secs(90), move || {
        let mut ctx = Context::default();
        let mut sys = spec.build(&mut ctx);
        let res = crate::panics::guarded(|| {
            if simplify {
                patronus::system::transform::simplify_expressions(&mut ctx, &mut sys);
            }
            let mut smt = live::start(profile).map_err(|e| format!("start: {e}"))?;
            bmc(&mut ctx, &mut smt, &sys, check_constraints, individually, k_max).map_err(|e| format!("{e:?}"))
        });
        match res {
            Ok(Ok(ModelCheckResult::Success)) => RunOut { verdict: Verdict::Success, witness: None },
            Ok(Ok(ModelCheckResult::Unknown)) => RunOut { verdict: Verdict::Unknown, witness: None },
            Ok(Ok(ModelCheckResult::Fail(w))) => {
                let k = w.inputs.len().saturating_sub(1);
                RunOut { verdict: Verdict::Fail(k), witness: if keep_witness { Some((w, ctx, sys)) } else { None } }
            }
            Ok(Err(e)) => RunOut { verdict: Verdict::Err(e.chars().take(300).collect()), witness: None },
            Err((loc, msg)) => RunOut { verdict: Verdict::Panic(format!("{loc}: {}", msg.chars().take(200).collect::<String>())), witness: None },
        }
    });
    r.unwrap_or_else(|| {
        live::kill_stray_solvers(85.0);
        RunOut { verdict: Verdict::Hang, witness: None }
    })
}

pub fn expected_verdict(oracle: &[Answer], k_max: usize) -> Option<Verdict> {
    for (j, a) in oracle.iter().enumerate().take(k_max + 1) {
        match a {
            Answer::Sat => return Some(Verdict::Fail(j)),
            Answer::Unsat => {}
            _ => return None,
        }
    }
    if oracle.len() > k_max || oracle.iter().all(|a| *a == Answer::Unsat) && oracle.len() == k_max + 1 { Some(Verdict::Success) } else { None }
}

pub fn nonliteral_const_array(spec: &SysSpec) -> bool {
    use crate::refsmt::Op;
    use crate::shapes::Sh;
    fn has(e: &Sh) -> bool {
        match e {
            // cvc5 1.0: non-literal values under `as const` are rejected, and equalities between
            // write chains over different constant arrays are unsupported by its array solver
            Sh::Op(Op::ArrayConst, _, _) => true,
            Sh::Op(_, _, k) => k.iter().any(has),
            _ => false,
        }
    }
    spec.states.iter().any(|s| s.init.as_ref().map(has).unwrap_or(false) || s.next.as_ref().map(has).unwrap_or(false))
        || spec.outputs.iter().any(|o| has(&o.1))
        || spec.bads.iter().any(has)
        || spec.constraints.iter().any(has)
}

fn err_kind(e: &str) -> &'static str {
    if e.contains("unknown constant") || e.contains("not declared") {
        "solver-error:unknown-symbol"
    } else if e.contains("already") || e.contains("redecl") {
        "solver-error:double-definition"
    } else if e.contains("FromSolver") {
        "solver-error:other"
    } else if e.contains("Parser") {
        "response-parse-error"
    } else {
        "other"
    }
}

fn check_system(rep: &mut Report, seed: u64, index: u64, tier: Tier, oracle_proc: &mut Proc) {
    let spec = spec_for(seed, index);
    rep.count("programs", 1);
    let bounds: Vec<u64> = match (tier, spec.pattern) {
        (Tier::Quick, "counter-deep") => vec![2, 9],
        (Tier::Quick, _) => vec![1, 4],
        (Tier::Thorough, "counter-deep") => vec![1, 5, 12],
        (Tier::Thorough, _) => vec![1, 3, 7, 12],
    };
    let kmax = *bounds.iter().max().unwrap() as usize;
    let (oracle, cons_ok) = {
        let mut ctx = Context::default();
        let sys = spec.build(&mut ctx);
        let o = live::reach_oracle(&ctx, &sys, kmax, oracle_proc);
        let c = live::constraints_satisfiable(&ctx, &sys, kmax, oracle_proc);
        (o, c)
    };
    let oracle = match oracle {
        Ok(o) => o,
        Err(e) => {
            rep.undecided.push(format!("oracle failed on generated system #{index}: {e}"));
            return;
        }
    };
    for &k in bounds.iter() {
        let Some(expect) = expected_verdict(&oracle, k as usize) else {
            rep.inconc(json!({"system": index, "bound": k, "why": format!("oracle undecided: {:?}", oracle.iter().map(|a| a.short()).collect::<Vec<_>>())}));
            rep.count("obligations", 1);
            continue;
        };
        *rep.counters.entry(format!("expected_{}", if matches!(expect, Verdict::Fail(_)) { "fail" } else { "success" })).or_insert(0) += 1;
        let full_matrix = tier == Tier::Thorough || k == *bounds.iter().max().unwrap();
        for (pi, profile) in PROFILES.iter().enumerate() {
            // cvc5 1.0 only accepts values under the non-standard `as const`; systems with a non-literal
            // constant array are judged with z3 only
            if profile.solver == "cvc5" && nonliteral_const_array(&spec) {
                rep.count("cvc5_skipped_nonliteral_const_array", 1);
                continue;
            }
            for individually in [false, true] {
                for simplify in [false, true] {
                    // quick tier: the full profile x mode x simplify matrix at the larger bound, the four
                    // profiles (joint, unsimplified) at the smaller one
                    if !full_matrix && (individually || simplify) {
                        continue;
                    }
                    // check_constraints only where the constraints are satisfiable at every step (documented assert otherwise)
                    let check_constraints = cons_ok && (index + pi as u64) % 2 == 0;
                    rep.count("obligations", 1);
                    let out = run_bmc(&spec, *profile, individually, check_constraints, simplify, k, false);
                    if out.verdict == expect {
                        rep.count("discharged", 1);
                        if index % 97 == 0 && pi == 0 && !individually && !simplify {
                            rep.sample(json!({"system": spec.show(), "bound": k, "oracle": oracle.iter().map(|a| a.short()).collect::<Vec<_>>(), "bmc": out.verdict.show()}), 8);
                        }
                        continue;
                    }
                    let class = match (&expect, &out.verdict) {
                        (Verdict::Fail(_), Verdict::Success) => "missed-fail".to_string(),
                        (Verdict::Success, Verdict::Fail(_)) => "spurious-fail".to_string(),
                        (Verdict::Fail(a), Verdict::Fail(b)) => format!("wrong-step:{}", if b > a { "late" } else { "early" }),
                        (_, Verdict::Err(e)) => format!("err:{}", err_kind(e)),
                        (_, Verdict::Panic(p)) => format!("panic@{}", p.split(':').take(2).collect::<Vec<_>>().join(":")),
                        (_, Verdict::Hang) => "hang".to_string(),
                        _ => "unknown".to_string(),
                    };
                    rep.count("disagreements_checked", 1);
                    rep.violation(
                        Role::new(SITE, &format!("{};{}", profile.name(), if individually { "individual" } else { "joint" }), &class),
                        format!(
                            "system #{index} ({}) bound {k} [{} {} simplify={simplify} check_constraints={check_constraints}]: bmc says {}, reference reachability says {} (per depth: {:?})",
                            spec.pattern,
                            profile.name(),
                            if individually { "individual" } else { "joint" },
                            out.verdict.show(),
                            expect.show(),
                            oracle.iter().map(|a| a.short()).collect::<Vec<_>>()
                        ),
                        json!({"system": {"index": index, "seed": seed, "text": spec.show()}, "bound": k, "profile": profile.name(), "individually": individually, "simplify": simplify,
                            "check_constraints": check_constraints, "bmc": out.verdict.show(), "expected": expect.show()}),
                    );
                }
            }
        }
    }
}

pub fn run(tier: Tier, seed: u64, replay: Option<serde_json::Value>) -> i32 {
    let mut rep = Report::new("C02", tier, seed, "translation_validation");
    let n = tier.pick(160u64, 3000u64);
    let mut indices: Vec<u64> = (0..n).collect();
    if let Some(r) = &replay {
        rep.write_files = false;
        indices = r["replay"]["system"]["index"].as_u64().map(|i| vec![i]).unwrap_or_default();
    }
    for p in PROFILES.iter() {
        if live::start(*p).is_err() {
            rep.undecided.push(format!("cannot start solver for profile {}", p.name()));
        }
    }
    let parts: Vec<Report> = indices
        .par_chunks(8)
        .map(|chunk| {
            let mut r = Report::new("C02", tier, seed, "translation_validation");
            let mut oracle_proc = Proc::new(Which::Z3New, 20_000);
            for &i in chunk {
                check_system(&mut r, seed, i, tier, &mut oracle_proc);
            }
            r.count("solver_time_ms", oracle_proc.solver_time.as_millis() as u64);
            r.count("solver_queries", oracle_proc.queries);
            r
        })
        .collect();
    for p in parts {
        rep.merge(p);
    }
    rep.extra.insert("bounds".into(), json!({"generated_systems": n, "patterns": sysgen::PATTERNS, "bmc_bounds": tier.pick("k in {1,4} ({2,9} for counters)", "k in {1,3,7,12}"),
        "profiles": PROFILES.iter().map(|p| p.name()).collect::<Vec<_>>(), "modes": ["joint", "individual"], "simplify": [false, true],
        "note": "supports_const_array is not consulted anywhere in patronus (grep), it spans no behaviour"}));
    rep.extra.insert("functions_encoded".into(), json!(["mc::bmc", "mc::UnrollSmtEncoding", "mc::check_assuming / check_assuming_end", "smt::SmtLibSolverCtx (text protocol, z3 4.8.12 and cvc5 1.0)", "system::transform::simplify_expressions"]));
    rep.extra.insert("outside_claim".into(), json!(["Bitwuzla / Yices back ends (not installed)", "bounds above 12", "systems beyond the grammar's size", "the tools/mc command line"]));
    rep.assumptions = vec![
        "RefUnroll states the btor2 execution semantics; z3 5.1 decides the reference reachability queries (all executions of length <= k)".into(),
        "the live solvers answer the scripts they are sent correctly (C04 decides that the scripts mean what the system means)".into(),
    ];
    live::kill_stray_solvers(0.0);
    rep.finish()
}
