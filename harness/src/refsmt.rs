//! RefSmt – the reference encoding of `Expr` DAGs into SMT-LIB 2 (the oracle of engine S).
//!
//! * every bit-vector value, including 1-bit ones, is `(_ BitVec w)`; no Bool coercion;
//! * destructures every `Expr` variant itself (does not use `for_each_child`, `get_type`,
//!   `type_check`, `serialize`, `eval` or `simplify` of the code under test);
//! * widths are recomputed bottom-up from the leaves; disagreement with a stored width is
//!   reported as ill-typed.

use baa::BitVecOps;
use patronus::expr::{Context, Expr, ExprRef};
use std::collections::HashMap;
use std::fmt::Write as _;

#[derive(Clone, Copy, PartialEq, Eq, Debug, Hash, PartialOrd, Ord)]
pub enum Ty {
    BV(u32),
    Arr(u32, u32),
}

impl Ty {
    pub fn bv(self) -> Option<u32> {
        match self {
            Ty::BV(w) => Some(w),
            _ => None,
        }
    }
    pub fn is_arr(self) -> bool {
        matches!(self, Ty::Arr(..))
    }
}

pub fn sort(t: Ty) -> String {
    match t {
        Ty::BV(w) => format!("(_ BitVec {w})"),
        Ty::Arr(i, d) => format!("(Array (_ BitVec {i}) (_ BitVec {d}))"),
    }
}

#[derive(Clone, Copy, PartialEq, Eq, Debug, Hash, PartialOrd, Ord)]
pub enum Op {
    BVSymbol,
    BVLiteral,
    ZeroExt,
    SignExt,
    Slice,
    Not,
    Neg,
    Equal,
    Implies,
    Ugt,
    Sgt,
    Uge,
    Sge,
    Concat,
    And,
    Or,
    Xor,
    Shl,
    Ashr,
    Lshr,
    Add,
    Mul,
    Sdiv,
    Udiv,
    Smod,
    Srem,
    Urem,
    Sub,
    ArrayRead,
    Ite,
    ArraySymbol,
    ArrayConst,
    ArrayEqual,
    ArrayStore,
    ArrayIte,
}

impl Op {
    pub fn name(self) -> &'static str {
        match self {
            Op::BVSymbol => "sym",
            Op::BVLiteral => "lit",
            Op::ZeroExt => "zext",
            Op::SignExt => "sext",
            Op::Slice => "slice",
            Op::Not => "not",
            Op::Neg => "neg",
            Op::Equal => "eq",
            Op::Implies => "implies",
            Op::Ugt => "ugt",
            Op::Sgt => "sgt",
            Op::Uge => "ugte",
            Op::Sge => "sgte",
            Op::Concat => "concat",
            Op::And => "and",
            Op::Or => "or",
            Op::Xor => "xor",
            Op::Shl => "shl",
            Op::Ashr => "ashr",
            Op::Lshr => "lshr",
            Op::Add => "add",
            Op::Mul => "mul",
            Op::Sdiv => "sdiv",
            Op::Udiv => "udiv",
            Op::Smod => "smod",
            Op::Srem => "srem",
            Op::Urem => "urem",
            Op::Sub => "sub",
            Op::ArrayRead => "read",
            Op::Ite => "ite",
            Op::ArraySymbol => "asym",
            Op::ArrayConst => "aconst",
            Op::ArrayEqual => "aeq",
            Op::ArrayStore => "store",
            Op::ArrayIte => "aite",
        }
    }
    pub const ALL: [Op; 35] = [
        Op::BVSymbol,
        Op::BVLiteral,
        Op::ZeroExt,
        Op::SignExt,
        Op::Slice,
        Op::Not,
        Op::Neg,
        Op::Equal,
        Op::Implies,
        Op::Ugt,
        Op::Sgt,
        Op::Uge,
        Op::Sge,
        Op::Concat,
        Op::And,
        Op::Or,
        Op::Xor,
        Op::Shl,
        Op::Ashr,
        Op::Lshr,
        Op::Add,
        Op::Mul,
        Op::Sdiv,
        Op::Udiv,
        Op::Smod,
        Op::Srem,
        Op::Urem,
        Op::Sub,
        Op::ArrayRead,
        Op::Ite,
        Op::ArraySymbol,
        Op::ArrayConst,
        Op::ArrayEqual,
        Op::ArrayStore,
        Op::ArrayIte,
    ];
}

/// The harness's own view of one node: operator, parameters, children in *declaration order of
/// the variant's fields*, and the width the node stores (if it stores one).
#[derive(Clone, Debug)]
pub struct Node {
    pub op: Op,
    /// zext/sext: [by]; slice: [hi, lo]; symbols: [width] / [index_width, data_width];
    /// array const: [index_width, data_width]
    pub params: [u32; 2],
    pub kids: Vec<ExprRef>,
    pub stored_width: Option<u32>,
}

/// Destructure an `Expr` by hand. This is the only place where the harness looks into `Expr`.
pub fn decompose(e: &Expr) -> Node {
    let n = |op, params, kids: &[ExprRef], sw| Node { op, params, kids: kids.to_vec(), stored_width: sw };
    match e {
        Expr::BVSymbol { name: _, width } => n(Op::BVSymbol, [*width, 0], &[], Some(*width)),
        Expr::BVLiteral(v) => n(Op::BVLiteral, [v.width(), 0], &[], Some(v.width())),
        Expr::BVZeroExt { e, by, width } => n(Op::ZeroExt, [*by, 0], &[*e], Some(*width)),
        Expr::BVSignExt { e, by, width } => n(Op::SignExt, [*by, 0], &[*e], Some(*width)),
        Expr::BVSlice { e, hi, lo } => n(Op::Slice, [*hi, *lo], &[*e], None),
        Expr::BVNot(a, w) => n(Op::Not, [0, 0], &[*a], Some(*w)),
        Expr::BVNegate(a, w) => n(Op::Neg, [0, 0], &[*a], Some(*w)),
        Expr::BVEqual(a, b) => n(Op::Equal, [0, 0], &[*a, *b], None),
        Expr::BVImplies(a, b) => n(Op::Implies, [0, 0], &[*a, *b], None),
        Expr::BVGreater(a, b) => n(Op::Ugt, [0, 0], &[*a, *b], None),
        // note: the width stored in signed comparisons is the *operand* width
        Expr::BVGreaterSigned(a, b, _w) => n(Op::Sgt, [0, 0], &[*a, *b], None),
        Expr::BVGreaterEqual(a, b) => n(Op::Uge, [0, 0], &[*a, *b], None),
        Expr::BVGreaterEqualSigned(a, b, _w) => n(Op::Sge, [0, 0], &[*a, *b], None),
        Expr::BVConcat(a, b, w) => n(Op::Concat, [0, 0], &[*a, *b], Some(*w)),
        Expr::BVAnd(a, b, w) => n(Op::And, [0, 0], &[*a, *b], Some(*w)),
        Expr::BVOr(a, b, w) => n(Op::Or, [0, 0], &[*a, *b], Some(*w)),
        Expr::BVXor(a, b, w) => n(Op::Xor, [0, 0], &[*a, *b], Some(*w)),
        Expr::BVShiftLeft(a, b, w) => n(Op::Shl, [0, 0], &[*a, *b], Some(*w)),
        Expr::BVArithmeticShiftRight(a, b, w) => n(Op::Ashr, [0, 0], &[*a, *b], Some(*w)),
        Expr::BVShiftRight(a, b, w) => n(Op::Lshr, [0, 0], &[*a, *b], Some(*w)),
        Expr::BVAdd(a, b, w) => n(Op::Add, [0, 0], &[*a, *b], Some(*w)),
        Expr::BVMul(a, b, w) => n(Op::Mul, [0, 0], &[*a, *b], Some(*w)),
        Expr::BVSignedDiv(a, b, w) => n(Op::Sdiv, [0, 0], &[*a, *b], Some(*w)),
        Expr::BVUnsignedDiv(a, b, w) => n(Op::Udiv, [0, 0], &[*a, *b], Some(*w)),
        Expr::BVSignedMod(a, b, w) => n(Op::Smod, [0, 0], &[*a, *b], Some(*w)),
        Expr::BVSignedRem(a, b, w) => n(Op::Srem, [0, 0], &[*a, *b], Some(*w)),
        Expr::BVUnsignedRem(a, b, w) => n(Op::Urem, [0, 0], &[*a, *b], Some(*w)),
        Expr::BVSub(a, b, w) => n(Op::Sub, [0, 0], &[*a, *b], Some(*w)),
        Expr::BVArrayRead { array, index, width } => n(Op::ArrayRead, [0, 0], &[*array, *index], Some(*width)),
        Expr::BVIte { cond, tru, fals } => n(Op::Ite, [0, 0], &[*cond, *tru, *fals], None),
        Expr::ArraySymbol { name: _, index_width, data_width } => {
            n(Op::ArraySymbol, [*index_width, *data_width], &[], None)
        }
        Expr::ArrayConstant { e, index_width, data_width } => {
            n(Op::ArrayConst, [*index_width, *data_width], &[*e], None)
        }
        Expr::ArrayEqual(a, b) => n(Op::ArrayEqual, [0, 0], &[*a, *b], None),
        Expr::ArrayStore { array, index, data } => n(Op::ArrayStore, [0, 0], &[*array, *index, *data], None),
        Expr::ArrayIte { cond, tru, fals } => n(Op::ArrayIte, [0, 0], &[*cond, *tru, *fals], None),
    }
}

#[derive(Debug, Clone)]
pub struct IllTyped(pub String);

/// Result type of a node from operator + child types, independent of patronus' type checker.
pub fn node_type(n: &Node, k: &[Ty]) -> Result<Ty, IllTyped> {
    let ill = |m: &str| Err(IllTyped(format!("{}: {m} (children {:?}, params {:?}, stored {:?})", n.op.name(), k, n.params, n.stored_width)));
    let bvk = |i: usize| -> Option<u32> { k.get(i).and_then(|t| t.bv()) };
    let t = match n.op {
        Op::BVSymbol | Op::BVLiteral => {
            if n.params[0] == 0 {
                return ill("zero width");
            }
            Ty::BV(n.params[0])
        }
        Op::ArraySymbol => {
            if n.params[0] == 0 || n.params[1] == 0 {
                return ill("zero width");
            }
            Ty::Arr(n.params[0], n.params[1])
        }
        Op::ZeroExt | Op::SignExt => match bvk(0) {
            Some(w) => Ty::BV(w + n.params[0]),
            None => return ill("operand not bv"),
        },
        Op::Slice => match bvk(0) {
            Some(w) => {
                let (hi, lo) = (n.params[0], n.params[1]);
                if hi < lo || hi >= w {
                    return ill("slice bounds");
                }
                Ty::BV(hi - lo + 1)
            }
            None => return ill("operand not bv"),
        },
        Op::Not | Op::Neg => match bvk(0) {
            Some(w) => Ty::BV(w),
            None => return ill("operand not bv"),
        },
        Op::Equal | Op::Ugt | Op::Sgt | Op::Uge | Op::Sge => match (bvk(0), bvk(1)) {
            (Some(a), Some(b)) if a == b => Ty::BV(1),
            _ => return ill("operands differ / not bv"),
        },
        Op::Implies => match (bvk(0), bvk(1)) {
            (Some(1), Some(1)) => Ty::BV(1),
            _ => return ill("operands not 1-bit"),
        },
        Op::Concat => match (bvk(0), bvk(1)) {
            (Some(a), Some(b)) => Ty::BV(a + b),
            _ => return ill("operands not bv"),
        },
        Op::And | Op::Or | Op::Xor | Op::Shl | Op::Ashr | Op::Lshr | Op::Add | Op::Mul | Op::Sdiv | Op::Udiv | Op::Smod
        | Op::Srem | Op::Urem | Op::Sub => match (bvk(0), bvk(1)) {
            (Some(a), Some(b)) if a == b => Ty::BV(a),
            _ => return ill("operands differ / not bv"),
        },
        Op::ArrayRead => match (k.first(), bvk(1)) {
            (Some(Ty::Arr(i, d)), Some(iw)) if *i == iw => Ty::BV(*d),
            _ => return ill("read typing"),
        },
        Op::Ite => match (bvk(0), bvk(1), bvk(2)) {
            (Some(1), Some(a), Some(b)) if a == b => Ty::BV(a),
            _ => return ill("ite typing"),
        },
        Op::ArrayConst => match bvk(0) {
            Some(d) if d == n.params[1] && n.params[0] > 0 => Ty::Arr(n.params[0], d),
            _ => return ill("array const typing"),
        },
        Op::ArrayEqual => match (k.first(), k.get(1)) {
            (Some(Ty::Arr(a, b)), Some(Ty::Arr(c, d))) if a == c && b == d => Ty::BV(1),
            _ => return ill("array eq typing"),
        },
        Op::ArrayStore => match (k.first(), bvk(1), bvk(2)) {
            (Some(Ty::Arr(i, d)), Some(iw), Some(dw)) if *i == iw && *d == dw => Ty::Arr(*i, *d),
            _ => return ill("store typing"),
        },
        Op::ArrayIte => match (bvk(0), k.get(1), k.get(2)) {
            (Some(1), Some(Ty::Arr(a, b)), Some(Ty::Arr(c, d))) if a == c && b == d => Ty::Arr(*a, *b),
            _ => return ill("array ite typing"),
        },
    };
    if let (Some(sw), Ty::BV(w)) = (n.stored_width, t) {
        if sw != w {
            return ill(&format!("stored width {sw} != recomputed {w}"));
        }
    }
    Ok(t)
}

/// SMT-LIB text of one node given the text of its children (all values are BitVec / Array).
pub fn node_smt(n: &Node, k: &[(String, Ty)], ty: Ty, lit_bits: Option<&str>) -> String {
    let a = |i: usize| k[i].0.as_str();
    let b2bv = |s: String| format!("(ite {s} #b1 #b0)");
    match n.op {
        Op::BVSymbol | Op::ArraySymbol => unreachable!("symbols handled by caller"),
        Op::BVLiteral => format!("#b{}", lit_bits.unwrap()),
        Op::ZeroExt => format!("((_ zero_extend {}) {})", n.params[0], a(0)),
        Op::SignExt => format!("((_ sign_extend {}) {})", n.params[0], a(0)),
        Op::Slice => format!("((_ extract {} {}) {})", n.params[0], n.params[1], a(0)),
        Op::Not => format!("(bvnot {})", a(0)),
        Op::Neg => format!("(bvneg {})", a(0)),
        Op::Equal | Op::ArrayEqual => b2bv(format!("(= {} {})", a(0), a(1))),
        Op::Implies => format!("(bvor (bvnot {}) {})", a(0), a(1)),
        Op::Ugt => b2bv(format!("(bvugt {} {})", a(0), a(1))),
        Op::Sgt => b2bv(format!("(bvsgt {} {})", a(0), a(1))),
        Op::Uge => b2bv(format!("(bvuge {} {})", a(0), a(1))),
        Op::Sge => b2bv(format!("(bvsge {} {})", a(0), a(1))),
        Op::Concat => format!("(concat {} {})", a(0), a(1)),
        Op::And => format!("(bvand {} {})", a(0), a(1)),
        Op::Or => format!("(bvor {} {})", a(0), a(1)),
        Op::Xor => format!("(bvxor {} {})", a(0), a(1)),
        Op::Shl => format!("(bvshl {} {})", a(0), a(1)),
        Op::Ashr => format!("(bvashr {} {})", a(0), a(1)),
        Op::Lshr => format!("(bvlshr {} {})", a(0), a(1)),
        Op::Add => format!("(bvadd {} {})", a(0), a(1)),
        Op::Mul => format!("(bvmul {} {})", a(0), a(1)),
        Op::Sdiv => format!("(bvsdiv {} {})", a(0), a(1)),
        Op::Udiv => format!("(bvudiv {} {})", a(0), a(1)),
        Op::Smod => format!("(bvsmod {} {})", a(0), a(1)),
        Op::Srem => format!("(bvsrem {} {})", a(0), a(1)),
        Op::Urem => format!("(bvurem {} {})", a(0), a(1)),
        Op::Sub => format!("(bvsub {} {})", a(0), a(1)),
        Op::ArrayRead => format!("(select {} {})", a(0), a(1)),
        Op::Ite | Op::ArrayIte => format!("(ite (= {} #b1) {} {})", a(0), a(1), a(2)),
        Op::ArrayConst => format!("((as const {}) {})", sort(ty), a(0)),
        Op::ArrayStore => format!("(store {} {} {})", a(0), a(1), a(2)),
    }
}

pub struct RefEnc<'a> {
    pub ctx: &'a Context,
    /// prefix of `define-fun` names; must be unique per encoder within one query
    pub prefix: String,
    /// prefix of declared symbols (default `s!`)
    pub sym_prefix: String,
    /// symbols that are not declared but replaced by the given term
    pub sym_map: HashMap<ExprRef, String>,
    memo: HashMap<ExprRef, (String, Ty)>,
    /// declared symbols in first-use order
    pub decls: Vec<(String, Ty, ExprRef)>,
    pub defs: String,
    /// set when a non-literal value occurs under `as const` (cvc5 1.0 rejects that)
    pub nonvalue_const_array: bool,
    /// number of nodes encoded
    pub nodes: usize,
    /// stage-1 abstraction: division/remainder/multiplication become uninterpreted functions
    /// (sound for proving equivalence: equal under every interpretation ⇒ equal under the real one)
    pub abstract_hard: bool,
    pub uf_decls: std::collections::BTreeSet<String>,
}

impl<'a> RefEnc<'a> {
    pub fn new(ctx: &'a Context, prefix: &str) -> Self {
        Self {
            ctx,
            prefix: prefix.to_string(),
            sym_prefix: "s!".to_string(),
            sym_map: HashMap::new(),
            memo: HashMap::new(),
            decls: vec![],
            defs: String::new(),
            nonvalue_const_array: false,
            nodes: 0,
            abstract_hard: false,
            uf_decls: Default::default(),
        }
    }

    pub fn sym_name(&self, e: ExprRef) -> String {
        format!("{}{}", self.sym_prefix, usize::from(e))
    }

    /// Type only (independent deep type check), no text.
    pub fn type_of(ctx: &Context, root: ExprRef) -> Result<Ty, IllTyped> {
        let mut memo: HashMap<ExprRef, Ty> = HashMap::new();
        let mut stack = vec![(root, false)];
        while let Some((e, done)) = stack.pop() {
            if memo.contains_key(&e) {
                continue;
            }
            let n = decompose(&ctx[e]);
            if !done {
                stack.push((e, true));
                for c in n.kids.iter() {
                    if !memo.contains_key(c) {
                        stack.push((*c, false));
                    }
                }
            } else {
                let k: Vec<Ty> = n.kids.iter().map(|c| memo[c]).collect();
                let t = node_type(&n, &k).map_err(|IllTyped(m)| IllTyped(format!("node #{}: {m}", usize::from(e))))?;
                memo.insert(e, t);
            }
        }
        Ok(memo[&root])
    }

    pub fn enc(&mut self, root: ExprRef) -> Result<(String, Ty), IllTyped> {
        let ctx = self.ctx;
        let mut stack = vec![(root, false)];
        while let Some((e, done)) = stack.pop() {
            if self.memo.contains_key(&e) {
                continue;
            }
            let n = decompose(&ctx[e]);
            if !done {
                stack.push((e, true));
                for c in n.kids.iter() {
                    if !self.memo.contains_key(c) {
                        stack.push((*c, false));
                    }
                }
                continue;
            }
            self.nodes += 1;
            let k: Vec<(String, Ty)> = n.kids.iter().map(|c| self.memo[c].clone()).collect();
            let kt: Vec<Ty> = k.iter().map(|x| x.1).collect();
            let ty = node_type(&n, &kt).map_err(|IllTyped(m)| IllTyped(format!("node #{}: {m}", usize::from(e))))?;
            let out = match n.op {
                Op::BVSymbol | Op::ArraySymbol => {
                    if let Some(t) = self.sym_map.get(&e) {
                        (t.clone(), ty)
                    } else {
                        let name = self.sym_name(e);
                        self.decls.push((name.clone(), ty, e));
                        (name, ty)
                    }
                }
                Op::BVLiteral => {
                    let bits = match &ctx[e] {
                        Expr::BVLiteral(v) => v.get(ctx).to_bit_str(),
                        _ => unreachable!(),
                    };
                    if bits.len() as u32 != n.params[0] {
                        return Err(IllTyped(format!("literal prints {} bits at width {}", bits.len(), n.params[0])));
                    }
                    (format!("#b{bits}"), ty)
                }
                _ => {
                    if n.op == Op::ArrayConst && !k[0].0.starts_with("#b") {
                        self.nonvalue_const_array = true;
                    }
                    let hard = matches!(n.op, Op::Udiv | Op::Sdiv | Op::Urem | Op::Srem | Op::Smod)
                        || (n.op == Op::Mul && ty.bv().unwrap_or(0) >= 6);
                    let term = if self.abstract_hard && hard {
                        let w = ty.bv().unwrap();
                        let f = format!("uf!{}!{w}", n.op.name());
                        self.uf_decls.insert(format!("(declare-fun {f} ((_ BitVec {w}) (_ BitVec {w})) (_ BitVec {w}))"));
                        format!("({f} {} {})", k[0].0, k[1].0)
                    } else {
                        node_smt(&n, &k, ty, None)
                    };
                    let name = format!("{}!{}", self.prefix, usize::from(e));
                    writeln!(self.defs, "(define-fun {name} () {} {term})", sort(ty)).unwrap();
                    (name, ty)
                }
            };
            self.memo.insert(e, out);
        }
        Ok(self.memo[&root].clone())
    }

    pub fn decl_text(&self) -> String {
        let mut s = String::new();
        for (n, t, _) in self.decls.iter() {
            writeln!(s, "(declare-const {n} {})", sort(*t)).unwrap();
        }
        for d in self.uf_decls.iter() {
            writeln!(s, "{d}").unwrap();
        }
        s
    }
}

/// `(push) decls defs (assert (distinct a b)) (check-sat)` body of an equivalence miter (without
/// the pop, so that the caller can ask for a model).
pub struct Miter {
    pub text: String,
    pub decls: Vec<(String, Ty, ExprRef)>,
    pub ty: Ty,
    pub terms: (String, String),
    pub cvc5_ok: bool,
}

pub fn miter(ctx: &Context, a: ExprRef, b: ExprRef) -> Result<Miter, IllTyped> {
    miter_opt(ctx, a, b, false)
}

/// `abstract_hard`: stage-1 miter with uninterpreted division/remainder/multiplication; only an
/// `unsat` answer to it is meaningful.
pub fn miter_opt(ctx: &Context, a: ExprRef, b: ExprRef, abstract_hard: bool) -> Result<Miter, IllTyped> {
    miter_mapped(ctx, a, b, &HashMap::new(), &[], abstract_hard)
}

/// Miter under a substitution of symbols by terms (`sym_map`); `force_decl` lists symbols that
/// must be declared even if only the substituted side mentions them (through their `s!<idx>` name).
pub fn miter_mapped(
    ctx: &Context,
    a: ExprRef,
    b: ExprRef,
    sym_map: &HashMap<ExprRef, String>,
    force_decl: &[ExprRef],
    abstract_hard: bool,
) -> Result<Miter, IllTyped> {
    let mut r = RefEnc::new(ctx, "n");
    r.sym_map = sym_map.clone();
    for s in force_decl {
        r.enc(*s)?;
    }
    r.abstract_hard = abstract_hard;
    let (ta, tya) = r.enc(a)?;
    let (tb, tyb) = r.enc(b)?;
    if tya != tyb {
        return Err(IllTyped(format!("type changed: {tya:?} vs {tyb:?}")));
    }
    let text = format!("{}{}(assert (distinct {ta} {tb}))\n", r.decl_text(), r.defs);
    Ok(Miter { text, decls: r.decls, ty: tya, terms: (ta, tb), cvc5_ok: !r.nonvalue_const_array })
}
