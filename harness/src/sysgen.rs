//! Transition-system generator: the enumerated bound for the system-level properties
//! (C02, C03, C04, C09, C10, C11, C17). Systems are built through the public TransitionSystem API.
//! Deterministic in (seed, stream, index).

use crate::refsmt::{Op, Ty};
use crate::rng::Rng;
use crate::shapes::{self, Sh};
use num_bigint::BigUint;
use patronus::expr::{Context, ExprRef};
use patronus::system::{State, TransitionSystem};

/// Sym index convention inside system expressions: 0..16 inputs, 16.. states.
pub const STATE_BASE: u8 = 16;

#[derive(Clone, Debug)]
pub struct StateSpec {
    pub ty: Ty,
    pub init: Option<Sh>,
    pub next: Option<Sh>,
}

#[derive(Clone, Debug, Default)]
pub struct SysSpec {
    pub name: String,
    pub pattern: &'static str,
    pub inputs: Vec<Ty>,
    pub states: Vec<StateSpec>,
    pub outputs: Vec<(String, Sh)>,
    pub bads: Vec<Sh>,
    pub constraints: Vec<Sh>,
    /// sub-expressions that get an explicit signal name
    pub named: Vec<(String, Sh)>,
    /// prefix for input names (`_input_` makes them anonymous for C11)
    pub anon_inputs: Vec<bool>,
    /// create the input and state symbols in the context in reverse order before registering them, so that
    /// the registration order (sys.inputs / sys.states) is not the order of the references
    pub reverse_create: bool,
}

#[derive(Clone, Copy, Debug)]
pub struct GenCfg {
    pub max_states: usize,
    pub max_inputs: usize,
    pub max_width: u32,
    pub arrays: bool,
    pub max_depth: usize,
    pub div: bool,
    pub max_state_bits: u32,
    /// every state gets a next function and an init (needed where the pins must determine the run)
    pub total: bool,
}

pub fn input_name(i: usize, anon: bool) -> String {
    // anonymous signals carry the reader's default prefixes: `_input_N` and (demoted states) `_state_N`
    if anon {
        if i % 2 == 1 { format!("_state_{i}") } else { format!("_input_{i}") }
    } else {
        format!("i{i}")
    }
}
pub fn state_name(i: usize) -> String {
    format!("s{i}")
}

impl SysSpec {
    pub fn namer(&self) -> impl Fn(u8, Ty) -> String + '_ {
        move |idx: u8, _t: Ty| {
            if idx < STATE_BASE {
                input_name(idx as usize, self.anon_inputs.get(idx as usize).copied().unwrap_or(false))
            } else {
                state_name((idx - STATE_BASE) as usize)
            }
        }
    }

    pub fn build(&self, ctx: &mut Context) -> TransitionSystem {
        let nm = self.namer();
        let mut sys = TransitionSystem::new(self.name.clone());
        if self.reverse_create {
            for (i, st) in self.states.iter().enumerate().rev() {
                Sh::Sym(STATE_BASE + i as u8, st.ty).build_with(ctx, &nm);
            }
            for (i, t) in self.inputs.iter().enumerate().rev() {
                Sh::Sym(i as u8, *t).build_with(ctx, &nm);
            }
        }
        for (i, t) in self.inputs.iter().enumerate() {
            let s = Sh::Sym(i as u8, *t).build_with(ctx, &nm);
            sys.add_input(ctx, s);
        }
        let syms: Vec<ExprRef> = self.states.iter().enumerate().map(|(i, st)| Sh::Sym(STATE_BASE + i as u8, st.ty).build_with(ctx, &nm)).collect();
        for (i, st) in self.states.iter().enumerate() {
            let init = st.init.as_ref().map(|e| e.build_with(ctx, &nm));
            let next = st.next.as_ref().map(|e| e.build_with(ctx, &nm));
            sys.add_state(ctx, State { symbol: syms[i], init, next });
        }
        for (n, e) in self.outputs.iter() {
            let x = e.build_with(ctx, &nm);
            sys.add_output(ctx, n.clone().into(), x);
        }
        for e in self.bads.iter() {
            let x = e.build_with(ctx, &nm);
            sys.bad_states.push(x);
        }
        for e in self.constraints.iter() {
            let x = e.build_with(ctx, &nm);
            sys.constraints.push(x);
        }
        for (n, e) in self.named.iter() {
            let x = e.build_with(ctx, &nm);
            if !ctx[x].is_symbol() && sys.names[x].is_none() {
                let r = ctx.string(n.clone().into());
                sys.names[x] = Some(r);
            }
        }
        sys
    }

    pub fn show(&self) -> String {
        let nm = self.namer();
        let sh = |e: &Sh| show_with(e, &nm);
        let mut s = format!("system {} [{}]\n", self.name, self.pattern);
        for (i, t) in self.inputs.iter().enumerate() {
            s.push_str(&format!("  input {} : {:?}\n", nm(i as u8, *t), t));
        }
        for (i, st) in self.states.iter().enumerate() {
            s.push_str(&format!(
                "  state {} : {:?} init {} next {}\n",
                state_name(i),
                st.ty,
                st.init.as_ref().map(&sh).unwrap_or("-".into()),
                st.next.as_ref().map(&sh).unwrap_or("-".into())
            ));
        }
        for (n, e) in self.outputs.iter() {
            s.push_str(&format!("  output {n} = {}\n", sh(e)));
        }
        for e in self.constraints.iter() {
            s.push_str(&format!("  constraint {}\n", sh(e)));
        }
        for e in self.bads.iter() {
            s.push_str(&format!("  bad {}\n", sh(e)));
        }
        for (n, e) in self.named.iter() {
            s.push_str(&format!("  name {n} := {}\n", sh(e)));
        }
        s
    }

    pub fn state_bits(&self) -> u32 {
        self.states
            .iter()
            .map(|s| match s.ty {
                Ty::BV(w) => w,
                Ty::Arr(i, d) => d * (1 << i),
            })
            .sum()
    }
}

/// Array-typed interface signals (added after an independently seeded change showed that no generated
/// system had one): an array input with index width != data width, exported unchanged under another
/// name, read by a second output, written by a *named* store node that a third output exports; every
/// array state is exported under a debug name as well.
pub fn add_array_io(spec: &mut SysSpec, variant: u64) {
    if spec.inputs.len() >= STATE_BASE as usize - 1 {
        return;
    }
    let (iw, dw) = [(3u32, 5u32), (2, 1), (1, 4)][(variant % 3) as usize];
    let ai = spec.inputs.len() as u8;
    spec.inputs.push(Ty::Arr(iw, dw));
    spec.anon_inputs.push(false);
    let arr = Sh::Sym(ai, Ty::Arr(iw, dw));
    spec.outputs.push(("amem_out".into(), arr.clone()));
    let idx = Sh::Lit(iw, BigUint::from(1u32));
    spec.outputs.push(("amem_rd".into(), Sh::Op(Op::ArrayRead, [0, 0], vec![arr.clone(), idx.clone()])));
    let st = Sh::Op(Op::ArrayStore, [0, 0], vec![arr.clone(), idx, Sh::Lit(dw, BigUint::from(1u32))]);
    if variant % 2 == 0 {
        spec.named.push(("amem_wr".into(), st.clone()));
    }
    spec.outputs.push(("amem_wr_out".into(), st));
    for (i, s) in spec.states.clone().iter().enumerate() {
        if let Ty::Arr(..) = s.ty {
            spec.outputs.push((format!("{}_dbg", state_name(i)), Sh::Sym(STATE_BASE + i as u8, s.ty)));
        }
    }
}

/// Wide signals (added after an independently seeded change to the btor2 writer's literal spelling showed that
/// no generated system had a literal wider than 9 bits): a state wider than one machine word with a literal
/// init, a next function and a bad state that mention further wide literals - values above 2^64 whose lower
/// words have leading zero nibbles, all-ones, single high bits -, and an output that slices it down.
pub fn add_wide_signals(spec: &mut SysSpec, variant: u64) {
    if spec.states.len() >= 12 {
        return;
    }
    let w = [65u32, 68, 72, 100, 128, 129, 132, 256, 64][(variant % 9) as usize];
    let one = BigUint::from(1u32);
    let lits: Vec<BigUint> = vec![
        (&one << 64u32) + 5u32,
        (&one << (w - 1)) + (&one << 32u32) + 3u32,
        (&one << w) - 1u32,
        ((&one << 64u32) * 0xabcu32) + 0x0f00_0000_0000_0001u64,
        (&one << (w - 1)),
        BigUint::from(0x1234_5678_9abc_def0u64),
        (&one << (w / 2)) - 1u32,
    ]
    .into_iter()
    .map(|x| x & ((&one << w) - 1u32))
    .collect();
    let t = Ty::BV(w);
    let si = spec.states.len() as u8;
    let me = Sh::Sym(STATE_BASE + si, t);
    let l = |k: u64| Sh::Lit(w, lits[((variant / 9 + k) % lits.len() as u64) as usize].clone());
    let step = Sh::Op(Op::Add, [0, 0], vec![me.clone(), l(1)]);
    let next = if spec.inputs.iter().any(|t| *t == Ty::BV(1)) {
        let ii = spec.inputs.iter().position(|t| *t == Ty::BV(1)).unwrap() as u8;
        Sh::Op(Op::Ite, [0, 0], vec![Sh::Sym(ii, Ty::BV(1)), l(2), step])
    } else {
        Sh::Op(Op::Xor, [0, 0], vec![step, l(2)])
    };
    spec.states.push(StateSpec { ty: t, init: Some(l(0)), next: Some(next) });
    spec.bads.push(Sh::Op(Op::Equal, [0, 0], vec![me.clone(), l(3)]));
    spec.outputs.push((format!("wide{w}_lo"), Sh::Op(Op::Slice, [w / 2, 1], vec![Sh::Op(Op::And, [0, 0], vec![me, l(4)])])));
}

/// Properties the simplifier resolves completely, and an unobserved register with an input of its own:
/// a constraint / bad state that folds to constant true or constant false (`x & !x`, `eq(concat(x, 0), 1)`,
/// `ugte(x, 0)`), and a state that no output, bad state or constraint depends on whose init / next read an
/// input nothing else reads.
pub fn add_trivial_properties(spec: &mut SysSpec, variant: u64) {
    let bvs: Vec<(u8, Ty)> = spec
        .inputs
        .iter()
        .enumerate()
        .map(|(i, t)| (i as u8, *t))
        .chain(spec.states.iter().enumerate().map(|(i, s)| (STATE_BASE + i as u8, s.ty)))
        .filter(|s| matches!(s.1, Ty::BV(_)))
        .collect();
    if bvs.is_empty() || spec.inputs.len() >= STATE_BASE as usize - 2 {
        return;
    }
    let (xi, xt) = bvs[(variant as usize) % bvs.len()];
    let w = xt.bv().unwrap();
    let x = Sh::Sym(xi, xt);
    let notx = Sh::Op(Op::Not, [0, 0], vec![x.clone()]);
    let zero = Sh::Lit(w, BigUint::from(0u32));
    // always false, 1 bit
    let f1 = Sh::Op(Op::Equal, [0, 0], vec![Sh::Op(Op::Concat, [0, 0], vec![x.clone(), Sh::Lit(1, BigUint::from(0u32))]), Sh::Lit(w + 1, BigUint::from(1u32))]);
    let f2 = Sh::Op(Op::Equal, [0, 0], vec![Sh::Op(Op::And, [0, 0], vec![x.clone(), notx.clone()]), Sh::Lit(w, (BigUint::from(1u32) << w) - 1u32)]);
    // always true, 1 bit
    let t1 = Sh::Op(Op::Uge, [0, 0], vec![x.clone(), zero.clone()]);
    let t2 = Sh::Op(Op::Equal, [0, 0], vec![Sh::Op(Op::Or, [0, 0], vec![x.clone(), notx]), Sh::Lit(w, (BigUint::from(1u32) << w) - 1u32)]);
    match variant % 6 {
        0 => spec.constraints.push(f1),
        1 => spec.constraints.push(f2),
        2 => spec.constraints.push(t1),
        3 => spec.bads.push(t2),
        4 => spec.bads.push(f1),
        _ => {
            spec.constraints.push(t2);
            spec.bads.push(f2);
        }
    }
    // unobserved register with its own input
    let ii = spec.inputs.len() as u8;
    let iw = 1 + (variant % 4) as u32;
    spec.inputs.push(Ty::BV(iw));
    spec.anon_inputs.push(variant % 3 != 0);
    let si = spec.states.len() as u8;
    let me = Sh::Sym(STATE_BASE + si, Ty::BV(iw));
    let inp = Sh::Sym(ii, Ty::BV(iw));
    let next = Sh::Op(Op::Xor, [0, 0], vec![Sh::Op(Op::Add, [0, 0], vec![me, inp.clone()]), Sh::Lit(iw, BigUint::from(1u32))]);
    let init = if variant % 2 == 0 { Some(Sh::Lit(iw, BigUint::from(0u32))) } else { None };
    spec.states.push(StateSpec { ty: Ty::BV(iw), init, next: Some(next) });
}

/// Bad states that mention inputs only, coupled to the state by a constraint (added after an independently
/// seeded "no bad state depends on a state => one step is enough" shortcut in bmc): a counter `c`, an input
/// `x` of the same width, constraint `c >= x` (or `x == c`), bad `x == k` - reachable exactly at step k
/// although no state is in the cone of the bad state. Replaces the system's bad states and constraints.
pub fn input_bad_state_constraint(spec: &mut SysSpec, variant: u64, fresh: bool) {
    if fresh {
        spec.states.clear();
        spec.inputs.clear();
        spec.anon_inputs.clear();
        spec.outputs.clear();
        spec.named.clear();
    }
    let w = 2 + (variant % 2) as u32;
    let t = Ty::BV(w);
    if spec.inputs.len() >= STATE_BASE as usize - 1 {
        return;
    }
    let xi = spec.inputs.len() as u8;
    spec.inputs.push(t);
    spec.anon_inputs.push(false);
    let ci = spec.states.len() as u8;
    let c = Sh::Sym(STATE_BASE + ci, t);
    let x = Sh::Sym(xi, t);
    spec.states.push(StateSpec { ty: t, init: Some(Sh::Lit(w, BigUint::from(0u32))), next: Some(Sh::Op(Op::Add, [0, 0], vec![c.clone(), Sh::Lit(w, BigUint::from(1u32))])) });
    spec.bads.clear();
    spec.constraints.clear();
    let k = 1 + (variant / 2) % 3;
    spec.constraints.push(if variant % 3 == 0 { Sh::Op(Op::Equal, [0, 0], vec![x.clone(), c]) } else { Sh::Op(Op::Uge, [0, 0], vec![c, x.clone()]) });
    spec.bads.push(Sh::Op(Op::Equal, [0, 0], vec![x, Sh::Lit(w, BigUint::from(k))]));
    spec.pattern = "input-bad+state-constraint";
}

/// A constraint gated by a chain of delay registers (added after an independently seeded PDR optimisation
/// that dropped from its cubes the states that only feed the next-state function of a constraint's state):
///   fuse (init 0; next = 1 | fuse & keep | fuse | keep),  armed_1.next = fuse, ..., armed_n.next = armed_{n-1}
///   constraint  !req | armed_n          bad  req            (variant: bad = cnt == k, constraint cnt == k-1 -> armed_n)
/// The bad state is reachable exactly when the chain can fill up; none of the chain states is in the
/// combinational support of the bad state, and only the last one is read by the constraint. Replaces the system.
pub fn delayed_gate(spec: &mut SysSpec, variant: u64) {
    spec.states.clear();
    spec.inputs.clear();
    spec.anon_inputs.clear();
    spec.outputs.clear();
    spec.named.clear();
    spec.bads.clear();
    spec.constraints.clear();
    let b1 = Ty::BV(1);
    let lit1 = |v: u32| Sh::Lit(1, BigUint::from(v));
    spec.inputs.push(b1); // req
    spec.inputs.push(b1); // keep
    spec.anon_inputs.extend([false, false]);
    let req = Sh::Sym(0, b1);
    let keep = Sh::Sym(1, b1);
    let fuse = Sh::Sym(STATE_BASE, b1);
    let fuse_next = match variant % 3 {
        0 => lit1(1),
        1 => Sh::Op(Op::And, [0, 0], vec![fuse.clone(), keep.clone()]),
        _ => Sh::Op(Op::Or, [0, 0], vec![fuse.clone(), keep]),
    };
    spec.states.push(StateSpec { ty: b1, init: Some(lit1(0)), next: Some(fuse_next) });
    let n = 1 + (variant / 3) % 2;
    let mut prev = fuse;
    for i in 0..n {
        let me = Sh::Sym(STATE_BASE + 1 + i as u8, b1);
        spec.states.push(StateSpec { ty: b1, init: Some(lit1(0)), next: Some(prev.clone()) });
        prev = me;
    }
    let armed = prev;
    if (variant / 6) % 2 == 0 {
        spec.constraints.push(Sh::Op(Op::Or, [0, 0], vec![Sh::Op(Op::Not, [0, 0], vec![req.clone()]), armed]));
        spec.bads.push(req);
    } else {
        // 2-bit counter; leaving cnt == 2 needs the gate
        let t = Ty::BV(2);
        let ci = STATE_BASE + 1 + n as u8;
        let cnt = Sh::Sym(ci, t);
        spec.states.push(StateSpec { ty: t, init: Some(Sh::Lit(2, BigUint::from(0u32))), next: Some(Sh::Op(Op::Add, [0, 0], vec![cnt.clone(), Sh::Lit(2, BigUint::from(1u32))])) });
        let at2 = Sh::Op(Op::Equal, [0, 0], vec![cnt.clone(), Sh::Lit(2, BigUint::from(2u32))]);
        spec.constraints.push(Sh::Op(Op::Or, [0, 0], vec![Sh::Op(Op::Not, [0, 0], vec![at2]), armed]));
        spec.bads.push(Sh::Op(Op::Equal, [0, 0], vec![cnt, Sh::Lit(2, BigUint::from(3u32))]));
        let _ = req;
    }
    spec.pattern = "delayed-gate";
}

/// Phase bits next to a counter (added after an independently seeded change to PDR's re-fixing of generalised
/// cubes against the initial states): a (init 0, next 1), b (init 0, next a) [, c (init 0, next b)], a 3-bit counter
/// x (init 0, next x + 1); bad x == k [& last phase bit]. The counterexample is a single chain of k steps whose
/// first states are told apart from the initial state only by the phase bits. Replaces the system.
pub fn phase_counter(spec: &mut SysSpec, variant: u64) {
    spec.states.clear();
    spec.inputs.clear();
    spec.anon_inputs.clear();
    spec.outputs.clear();
    spec.named.clear();
    spec.bads.clear();
    spec.constraints.clear();
    let b1 = Ty::BV(1);
    let lit1 = |v: u32| Sh::Lit(1, BigUint::from(v));
    let n = 2 + (variant % 2) as usize;
    let mut prev: Option<Sh> = None;
    for i in 0..n {
        let next = match &prev {
            None => lit1(1),
            Some(p) => p.clone(),
        };
        spec.states.push(StateSpec { ty: b1, init: Some(lit1(0)), next: Some(next) });
        prev = Some(Sh::Sym(STATE_BASE + i as u8, b1));
    }
    let w = 3;
    let x = Sh::Sym(STATE_BASE + n as u8, Ty::BV(w));
    spec.states.push(StateSpec { ty: Ty::BV(w), init: Some(Sh::Lit(w, BigUint::from(0u32))), next: Some(Sh::Op(Op::Add, [0, 0], vec![x.clone(), Sh::Lit(w, BigUint::from(1u32))])) });
    let k = 3 + (variant / 2) % 3;
    let hit = Sh::Op(Op::Equal, [0, 0], vec![x, Sh::Lit(w, BigUint::from(k))]);
    spec.bads.push(if (variant / 6) % 2 == 0 { hit } else { Sh::Op(Op::And, [0, 0], vec![hit, prev.unwrap()]) });
    spec.pattern = "phase-counter";
}

pub fn show_with(e: &Sh, nm: &dyn Fn(u8, Ty) -> String) -> String {
    match e {
        Sh::Sym(i, t) => nm(*i, *t),
        Sh::Lit(w, v) => format!("{w}'x{v:x}"),
        Sh::Op(op, p, k) => {
            let args: Vec<String> = k.iter().map(|c| show_with(c, nm)).collect();
            match op {
                Op::ZeroExt | Op::SignExt => format!("{}({}, {})", op.name(), args[0], p[0]),
                Op::Slice => format!("{}[{}:{}]", args[0], p[0], p[1]),
                Op::ArrayConst => format!("aconst<{}>({})", p[0], args[0]),
                _ => format!("{}({})", op.name(), args.join(", ")),
            }
        }
    }
}

/// adapt a signal to width `w` (zero-extend / slice)
fn adapt(sig: Sh, w: u32) -> Sh {
    match sig.ty() {
        Ty::BV(sw) if sw == w => sig,
        Ty::BV(sw) if sw < w => Sh::Op(Op::ZeroExt, [w - sw, 0], vec![sig]),
        Ty::BV(_) => Sh::Op(Op::Slice, [w - 1, 0], vec![sig]),
        _ => unreachable!(),
    }
}

/// random expression of type `t` over the given signals
pub fn random_expr(rng: &mut Rng, t: Ty, depth: usize, sigs: &[(u8, Ty)], div: bool, max_w: u32) -> Sh {
    let leaf = |rng: &mut Rng| -> Sh {
        match t {
            Ty::BV(w) => {
                let same: Vec<&(u8, Ty)> = sigs.iter().filter(|s| s.1 == t).collect();
                let bvs: Vec<&(u8, Ty)> = sigs.iter().filter(|s| matches!(s.1, Ty::BV(_))).collect();
                if !same.is_empty() && rng.chance(7, 10) {
                    let s = same[rng.below(same.len())];
                    Sh::Sym(s.0, s.1)
                } else if !bvs.is_empty() && rng.chance(1, 2) {
                    let s = bvs[rng.below(bvs.len())];
                    adapt(Sh::Sym(s.0, s.1), w)
                } else if w <= 4 {
                    Sh::Lit(w, BigUint::from(rng.next() % (1u64 << w)))
                } else {
                    Sh::Lit(w, shapes::random_lit(rng, w))
                }
            }
            Ty::Arr(i, d) => {
                let same: Vec<&(u8, Ty)> = sigs.iter().filter(|s| s.1 == t).collect();
                if !same.is_empty() && rng.chance(3, 4) {
                    let s = same[rng.below(same.len())];
                    Sh::Sym(s.0, s.1)
                } else {
                    Sh::Op(Op::ArrayConst, [i, d], vec![Sh::Lit(d, BigUint::from(rng.next() % (1u64 << d.min(16))))])
                }
            }
        }
    };
    if depth == 0 || rng.chance(1, 5) {
        return leaf(rng);
    }
    // operand width for comparisons: width of some signal
    let bvw: Vec<u32> = sigs.iter().filter_map(|s| s.1.bv()).collect();
    let cw = if bvw.is_empty() { 2 } else { bvw[rng.below(bvw.len())] };
    let sigs_all: Vec<shapes::Sig> = shapes::signatures(t, cw, div)
        .into_iter()
        .filter(|s| {
            s.kids.iter().all(|k| match k {
                Ty::BV(w) => *w <= max_w.max(cw),
                Ty::Arr(i, d) => sigs.iter().any(|x| x.1 == Ty::Arr(*i, *d)) || s.op != Op::ArrayRead,
            })
        })
        .collect();
    if sigs_all.is_empty() {
        return leaf(rng);
    }
    let sig = &sigs_all[rng.below(sigs_all.len())];
    let kids: Vec<Sh> = sig.kids.iter().map(|kt| random_expr(rng, *kt, depth - 1, sigs, div, max_w)).collect();
    Sh::Op(sig.op, sig.params, kids)
}

pub const PATTERNS: [&str; 13] = [
    "plain",
    "share-init-next",
    "share-next-bad",
    "share-init-bad",
    "input-only-in-next",
    "const-state",
    "no-next-no-init",
    "init-reads-earlier-state",
    "array-state",
    "input-is-output+named-nodes",
    "several-bads+constraints",
    "counter-deep",
    "label-aliases-state",
];

pub fn generate(seed: u64, stream: &str, index: u64, cfg: &GenCfg) -> SysSpec {
    let mut rng = Rng::new(seed, stream, index);
    let pattern = PATTERNS[(index as usize) % PATTERNS.len()];
    let mut spec = SysSpec { name: format!("{stream}_{index}"), pattern, reverse_create: index % 3 == 1, ..Default::default() };
    let n_inputs = rng.below(cfg.max_inputs + 1);
    for _ in 0..n_inputs {
        spec.inputs.push(Ty::BV(rng.range(1, cfg.max_width)));
        spec.anon_inputs.push(false);
    }
    let mut n_states = 1 + rng.below(cfg.max_states);
    if pattern == "init-reads-earlier-state" || pattern == "share-init-next" || pattern == "share-init-bad" {
        n_states = n_states.max(2).min(cfg.max_states.max(2));
    }
    let mut tys: Vec<Ty> = vec![];
    let mut bits = 0;
    for i in 0..n_states {
        let mut w = rng.range(1, cfg.max_width);
        if bits + w > cfg.max_state_bits {
            w = (cfg.max_state_bits.saturating_sub(bits)).max(1);
        }
        if bits + w > cfg.max_state_bits && i > 0 {
            break;
        }
        bits += w;
        tys.push(Ty::BV(w));
    }
    if pattern == "label-aliases-state" {
        tys[0] = Ty::BV(1);
    }
    if pattern == "array-state" && cfg.arrays {
        tys.push(Ty::Arr(2, 3));
    }
    if pattern == "input-only-in-next" && spec.inputs.is_empty() {
        spec.inputs.push(Ty::BV(rng.range(1, cfg.max_width)));
        spec.anon_inputs.push(false);
    }
    if pattern == "input-is-output+named-nodes" && spec.inputs.is_empty() {
        spec.inputs.push(Ty::BV(rng.range(1, cfg.max_width)));
        spec.anon_inputs.push(false);
    }
    let in_sigs: Vec<(u8, Ty)> = spec.inputs.iter().enumerate().map(|(i, t)| (i as u8, *t)).collect();
    let st_sigs: Vec<(u8, Ty)> = tys.iter().enumerate().map(|(i, t)| (STATE_BASE + i as u8, *t)).collect();
    let all: Vec<(u8, Ty)> = in_sigs.iter().chain(st_sigs.iter()).copied().collect();
    let d = cfg.max_depth;
    for (i, t) in tys.iter().enumerate() {
        let earlier: Vec<(u8, Ty)> = st_sigs[..i].to_vec();
        let mut init = if cfg.total || rng.chance(2, 3) {
            // constant init, or (pattern) an expression over earlier states
            if (pattern == "init-reads-earlier-state" || rng.chance(1, 6)) && !earlier.is_empty() && i > 0 {
                Some(random_expr(&mut rng, *t, 2, &earlier, false, cfg.max_width))
            } else {
                Some(random_expr(&mut rng, *t, 1, &[], false, cfg.max_width))
            }
        } else {
            None
        };
        let mut next = if cfg.total || rng.chance(5, 6) { Some(random_expr(&mut rng, *t, d, &all, cfg.div, cfg.max_width)) } else { None };
        match pattern {
            "const-state" if i == 0 => next = Some(Sh::Sym(STATE_BASE, *t)),
            "no-next-no-init" if i == 0 && !cfg.total => {
                next = None;
                if rng.chance(1, 2) {
                    init = None;
                }
            }
            "no-next-no-init" if i == 1 && !cfg.total => init = None,
            "array-state" => {
                if let Ty::Arr(iw, dw) = t {
                    let idx = random_expr(&mut rng, Ty::BV(*iw), 1, &all, false, cfg.max_width);
                    let dat = random_expr(&mut rng, Ty::BV(*dw), 2, &all, false, cfg.max_width);
                    let me = Sh::Sym(STATE_BASE + i as u8, *t);
                    let store = Sh::Op(Op::ArrayStore, [0, 0], vec![me.clone(), idx, dat]);
                    if init.is_none() || rng.chance(1, 2) {
                        init = Some(Sh::Op(Op::ArrayConst, [*iw, *dw], vec![Sh::Lit(*dw, BigUint::from(rng.next() % 8))]));
                    }
                    // memory idioms: plain write, write enable (active high / active low), synchronous clear
                    let we = random_expr(&mut rng, Ty::BV(1), 1, &all, false, cfg.max_width);
                    next = Some(match rng.below(5) {
                        0 | 1 => store,
                        2 => Sh::Op(Op::ArrayIte, [0, 0], vec![we, store, me]),
                        3 => Sh::Op(Op::ArrayIte, [0, 0], vec![we, me, store]),
                        _ => match init.clone() {
                            Some(clear @ Sh::Op(Op::ArrayConst, ..)) => Sh::Op(Op::ArrayIte, [0, 0], vec![we, clear, store]),
                            _ => store,
                        },
                    });
                }
            }
            "counter-deep" if i == 0 => {
                if let Ty::BV(w) = t {
                    init = Some(Sh::Lit(*w, BigUint::from(0u32)));
                    next = Some(Sh::Op(Op::Add, [0, 0], vec![Sh::Sym(STATE_BASE, *t), Sh::Lit(*w, BigUint::from(1u32))]));
                }
            }
            _ => {}
        }
        spec.states.push(StateSpec { ty: *t, init, next });
    }
    // sharing patterns on the last bit-vector state
    let mut lock_bads = false;
    let last = tys.iter().rposition(|t| matches!(t, Ty::BV(_)));
    if let Some(li) = last {
        let t = tys[li];
        let earlier: Vec<(u8, Ty)> = st_sigs[..li].to_vec();
        match pattern {
            "share-init-next" if !earlier.is_empty() => {
                let shared = random_expr(&mut rng, t, 2, &earlier, false, cfg.max_width);
                let shared = if matches!(shared, Sh::Op(..)) { shared } else { Sh::Op(Op::Add, [0, 0], vec![adapt(Sh::Sym(earlier[0].0, earlier[0].1), t.bv().unwrap()), Sh::Lit(t.bv().unwrap(), BigUint::from(1u32))]) };
                spec.states[li].init = Some(shared.clone());
                if rng.chance(1, 2) {
                    // next is the very same node as init: the state is a one-step delayed copy of an
                    // expression over a counter; observe a value it only takes at depth >= 2
                    let (ci, ct) = earlier[0];
                    let cw = ct.bv().unwrap();
                    let c = (ci - STATE_BASE) as usize;
                    spec.states[c].init = Some(Sh::Lit(cw, BigUint::from(0u32)));
                    spec.states[c].next = Some(Sh::Op(Op::Add, [0, 0], vec![Sh::Sym(ci, ct), Sh::Lit(cw, BigUint::from(1u32))]));
                    let w = t.bv().unwrap();
                    let shared = Sh::Op(Op::Add, [0, 0], vec![adapt(Sh::Sym(ci, ct), w), Sh::Lit(w, BigUint::from(1u32))]);
                    spec.states[li].init = Some(shared.clone());
                    spec.states[li].next = Some(shared);
                    if w >= 2 && cw >= 2 {
                        // the delay must be what decides reachability: no other bad states or constraints
                        lock_bads = true;
                        let sv = Sh::Sym(STATE_BASE + li as u8, t);
                        if rng.chance(1, 2) {
                            // reachable at depth 3 only through the delayed copy
                            spec.bads.push(Sh::Op(Op::Equal, [0, 0], vec![sv, Sh::Lit(w, BigUint::from(3u32))]));
                        } else {
                            // unreachable: the copy equals 1 only while the counter is below 2
                            let a = Sh::Op(Op::Equal, [0, 0], vec![sv, Sh::Lit(w, BigUint::from(1u32))]);
                            let b = Sh::Op(Op::Equal, [0, 0], vec![Sh::Sym(ci, ct), Sh::Lit(cw, BigUint::from(3u32))]);
                            spec.bads.push(Sh::Op(Op::And, [0, 0], vec![a, b]));
                        }
                    }
                } else {
                    spec.states[li].next = Some(Sh::Op(Op::Xor, [0, 0], vec![shared, Sh::Sym(STATE_BASE + li as u8, t)]));
                }
            }
            "share-init-bad" if !earlier.is_empty() => {
                let shared = Sh::Op(Op::Add, [0, 0], vec![adapt(Sh::Sym(earlier[0].0, earlier[0].1), t.bv().unwrap()), Sh::Lit(t.bv().unwrap(), BigUint::from(1u32))]);
                spec.states[li].init = Some(shared.clone());
                spec.bads.push(Sh::Op(Op::Equal, [0, 0], vec![shared, Sh::Sym(STATE_BASE + li as u8, t)]));
            }
            "share-next-bad" => {
                let shared = random_expr(&mut rng, t, 2, &all, false, cfg.max_width);
                let shared = if matches!(shared, Sh::Op(..)) { shared } else { Sh::Op(Op::Not, [0, 0], vec![Sh::Sym(STATE_BASE + li as u8, t)]) };
                spec.states[li].next = Some(shared.clone());
                let w = t.bv().unwrap();
                spec.bads.push(Sh::Op(Op::Equal, [0, 0], vec![shared, Sh::Lit(w, BigUint::from(rng.next() % (1u64 << w.min(16))))]));
            }
            "input-only-in-next" => {
                let (ii, it) = in_sigs[0];
                spec.states[li].next = Some(Sh::Op(Op::Xor, [0, 0], vec![Sh::Sym(STATE_BASE + li as u8, t), adapt(Sh::Sym(ii, it), t.bv().unwrap())]));
            }
            _ => {}
        }
    }
    // bad states: reachable-ish predicates over states (and inputs)
    let n_bads = match pattern {
        "several-bads+constraints" => 2 + rng.below(2),
        _ => 1 + rng.below(2),
    };
    while spec.bads.len() < n_bads && !lock_bads {
        let b = if rng.chance(1, 2) && !st_sigs.is_empty() {
            // state == literal
            let bv: Vec<&(u8, Ty)> = st_sigs.iter().filter(|s| matches!(s.1, Ty::BV(_))).collect();
            let s = bv[rng.below(bv.len())];
            let w = s.1.bv().unwrap();
            Sh::Op(Op::Equal, [0, 0], vec![Sh::Sym(s.0, s.1), Sh::Lit(w, BigUint::from(rng.next() % (1u64 << w.min(16))))])
        } else {
            random_expr(&mut rng, Ty::BV(1), d, &all, cfg.div, cfg.max_width)
        };
        spec.bads.push(b);
    }
    let n_cons = match pattern {
        "several-bads+constraints" => 1 + rng.below(2),
        _ => {
            if rng.chance(1, 3) {
                1
            } else {
                0
            }
        }
    };
    for _ in 0..(if lock_bads { 0 } else { n_cons }) {
        // constraints mostly over inputs so that they stay satisfiable
        let c = if !in_sigs.is_empty() && rng.chance(3, 4) {
            let s = in_sigs[rng.below(in_sigs.len())];
            let w = s.1.bv().unwrap();
            let lit = Sh::Lit(w, BigUint::from(rng.next() % (1u64 << w.min(16))));
            let op = *rng.pick(&[Op::Uge, Op::Ugt, Op::Equal, Op::Sge]);
            let c = Sh::Op(op, [0, 0], vec![Sh::Sym(s.0, s.1), lit]);
            if rng.chance(1, 2) { Sh::Op(Op::Not, [0, 0], vec![c]) } else { c }
        } else {
            random_expr(&mut rng, Ty::BV(1), 2, &all, false, cfg.max_width)
        };
        spec.constraints.push(c);
    }
    // outputs
    if pattern == "label-aliases-state" {
        // a named 1-bit state that is directly an output and directly a bad state / constraint
        let s0 = Sh::Sym(STATE_BASE, Ty::BV(1));
        let out_name = if rng.chance(1, 2) { "lbl".to_string() } else { state_name(0) };
        spec.outputs.push((out_name, s0.clone()));
        if rng.chance(2, 3) {
            spec.bads.push(s0.clone());
        } else {
            spec.constraints.push(Sh::Op(Op::Not, [0, 0], vec![s0.clone()]));
            spec.constraints.push(s0.clone());
            spec.constraints.pop();
            spec.bads.push(s0);
        }
    }
    if pattern == "input-is-output+named-nodes" {
        let (ii, it) = in_sigs[0];
        spec.outputs.push((input_name(ii as usize, false), Sh::Sym(ii, it)));
        // name a few intermediate nodes
        let mut cnt = 0;
        let mut cands: Vec<Sh> = vec![];
        for st in spec.states.iter() {
            if let Some(Sh::Op(_, _, k)) = &st.next {
                cands.extend(k.iter().filter(|c| matches!(c, Sh::Op(..))).cloned());
            }
        }
        for b in spec.bads.iter() {
            if let Sh::Op(_, _, k) = b {
                cands.extend(k.iter().filter(|c| matches!(c, Sh::Op(..))).cloned());
            }
        }
        for c in cands.into_iter().take(3) {
            spec.named.push((format!("node{cnt}"), c));
            cnt += 1;
        }
    }
    if rng.chance(1, 2) {
        let t = if rng.chance(1, 2) { Ty::BV(rng.range(1, cfg.max_width)) } else { Ty::BV(1) };
        spec.outputs.push((format!("o{}", spec.outputs.len()), random_expr(&mut rng, t, d, &all, cfg.div, cfg.max_width)));
    }
    spec
}
