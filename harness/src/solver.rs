//! Solver runner: long-lived `z3 -in` / `cvc5 --incremental` processes, one per worker thread.
//! Any `(error` line makes an answer inconclusive. Timeouts are enforced twice: by the solver's
//! own option and by a wall-clock watchdog that kills and restarts the process.

use std::io::{BufRead, BufReader, Write};
use std::process::{Child, ChildStdin, Command, Stdio};
use std::sync::mpsc::{Receiver, RecvTimeoutError, channel};
use std::time::{Duration, Instant};

#[derive(Clone, Copy, PartialEq, Eq, Debug, Hash)]
pub enum Which {
    Z3,
    Cvc5,
    /// z3 5.1.0 (`z3-new`), used as third opinion on hard queries
    Z3New,
}

impl Which {
    pub fn name(self) -> &'static str {
        match self {
            Which::Z3 => "z3",
            Which::Cvc5 => "cvc5",
            Which::Z3New => "z3-new",
        }
    }
}

#[derive(Clone, PartialEq, Eq, Debug)]
pub enum Answer {
    Sat,
    Unsat,
    Unknown,
    /// the solver printed an `(error …)` line (first one kept) – inconclusive
    Error(String),
    /// wall-clock watchdog fired, process was restarted – inconclusive
    Timeout,
}

impl Answer {
    pub fn short(&self) -> &'static str {
        match self {
            Answer::Sat => "sat",
            Answer::Unsat => "unsat",
            Answer::Unknown => "unknown",
            Answer::Error(_) => "error",
            Answer::Timeout => "timeout",
        }
    }
}

pub struct Proc {
    pub which: Which,
    child: Child,
    stdin: ChildStdin,
    rx: Receiver<String>,
    pub timeout_ms: u64,
    pub solver_time: Duration,
    pub queries: u64,
    pub restarts: u64,
    extra_args: Vec<String>,
    depth: usize,
    wall_scale: u64,
}

const DONE: &str = "!pverif-done!";

fn spawn(which: Which, timeout_ms: u64, extra: &[String]) -> (Child, ChildStdin, Receiver<String>) {
    let mut cmd = match which {
        Which::Z3 | Which::Z3New => {
            let mut c = Command::new(if which == Which::Z3 { z3_path() } else { "z3-new".to_string() });
            c.arg("-in");
            c.arg(format!("-t:{timeout_ms}"));
            c
        }
        Which::Cvc5 => {
            let mut c = Command::new("cvc5");
            c.args(["--incremental", "--lang", "smt2", "--produce-models", "--arrays-exp"]);
            c.arg(format!("--tlimit-per={timeout_ms}"));
            c
        }
    };
    cmd.args(extra);
    let mut child = cmd
        .stdin(Stdio::piped())
        .stdout(Stdio::piped())
        .stderr(Stdio::null())
        .spawn()
        .unwrap_or_else(|e| panic!("cannot start {}: {e}", which.name()));
    let stdin = child.stdin.take().unwrap();
    let stdout = child.stdout.take().unwrap();
    let (tx, rx) = channel();
    std::thread::spawn(move || {
        let r = BufReader::new(stdout);
        for line in r.lines() {
            match line {
                Ok(l) => {
                    if tx.send(l).is_err() {
                        break;
                    }
                }
                Err(_) => break,
            }
        }
    });
    (child, stdin, rx)
}

pub fn z3_path() -> String {
    std::env::var("PVERIF_Z3").unwrap_or_else(|_| "/usr/bin/z3".to_string())
}

impl Proc {
    pub fn new(which: Which, timeout_ms: u64) -> Self {
        Self::with_args(which, timeout_ms, &[])
    }
    pub fn with_args(which: Which, timeout_ms: u64, extra: &[String]) -> Self {
        let (child, stdin, rx) = spawn(which, timeout_ms, extra);
        let mut p = Proc {
            which,
            child,
            stdin,
            rx,
            timeout_ms,
            solver_time: Duration::ZERO,
            queries: 0,
            restarts: 0,
            extra_args: extra.to_vec(),
            depth: 0,
            wall_scale: 1,
        };
        p.preamble();
        p
    }

    fn preamble(&mut self) {
        let _ = self.stdin.write_all(b"(set-option :produce-models true)\n(set-logic ALL)\n");
    }

    pub fn restart(&mut self) {
        let _ = self.child.kill();
        let _ = self.child.wait();
        let (child, stdin, rx) = spawn(self.which, self.timeout_ms, &self.extra_args);
        self.child = child;
        self.stdin = stdin;
        self.rx = rx;
        self.restarts += 1;
        self.depth = 0;
        self.preamble();
    }

    /// Send text, then an echo marker; collect all lines up to the marker.
    /// Returns None on watchdog timeout / dead process (process is restarted).
    pub fn exchange(&mut self, text: &str) -> Option<Vec<String>> {
        let t0 = Instant::now();
        let ok = self
            .stdin
            .write_all(text.as_bytes())
            .and_then(|_| self.stdin.write_all(format!("\n(echo \"{DONE}\")\n").as_bytes()))
            .and_then(|_| self.stdin.flush());
        if ok.is_err() {
            self.restart();
            return None;
        }
        let wall = Duration::from_millis(self.timeout_ms * 3 * self.wall_scale + 5000);
        let mut lines = vec![];
        loop {
            let left = wall.checked_sub(t0.elapsed()).unwrap_or(Duration::ZERO);
            match self.rx.recv_timeout(left) {
                Ok(l) => {
                    let t = l.trim();
                    if t == DONE || t == format!("\"{DONE}\"") {
                        break;
                    }
                    lines.push(l);
                }
                Err(RecvTimeoutError::Timeout) | Err(RecvTimeoutError::Disconnected) => {
                    self.solver_time += t0.elapsed();
                    self.restart();
                    return None;
                }
            }
        }
        self.solver_time += t0.elapsed();
        Some(lines)
    }

    pub fn push(&mut self) {
        let _ = self.stdin.write_all(b"(push 1)\n");
        self.depth += 1;
    }
    pub fn pop(&mut self) {
        if self.depth > 0 {
            let _ = self.stdin.write_all(b"(pop 1)\n");
            self.depth -= 1;
        }
    }

    /// `body` (declarations + assertions) followed by `(check-sat)`; the caller brackets with
    /// push/pop.
    pub fn check(&mut self, body: &str) -> Answer {
        self.queries += 1;
        let text = format!("{body}\n(check-sat)");
        match self.exchange(&text) {
            None => Answer::Timeout,
            Some(lines) => classify(&lines),
        }
    }

    /// Pipelined batch of self-contained queries (push, body, check-sat, pop). No models.
    pub fn check_batch(&mut self, bodies: &[String]) -> Vec<Answer> {
        const Q: &str = "!pverif-q!";
        let mut out: Vec<Answer> = Vec::with_capacity(bodies.len());
        for group in bodies.chunks(64) {
            let mut text = String::new();
            for b in group {
                text.push_str("(push 1)\n");
                text.push_str(b);
                text.push_str(&format!("\n(check-sat)\n(pop 1)\n(echo \"{Q}\")\n"));
            }
            self.queries += group.len() as u64;
            if let Ok(d) = std::env::var("PVERIF_DUMP") {
                use std::io::Write as _;
                let mut f = std::fs::OpenOptions::new().create(true).append(true).open(format!("{d}/batch-{:?}.smt2", std::thread::current().id())).unwrap();
                let _ = f.write_all(text.as_bytes());
            }
            // watchdog scaled to the group
            self.wall_scale = group.len() as u64 / 3 + 1;
            let r = self.exchange(&text);
            self.wall_scale = 1;
            match r {
                None => {
                    for _ in group {
                        out.push(Answer::Timeout);
                    }
                }
                Some(lines) => {
                    let mut cur: Vec<String> = vec![];
                    let mut n = 0;
                    for l in lines {
                        let t = l.trim();
                        if t == Q || t == format!("\"{Q}\"") {
                            out.push(classify(&cur));
                            cur.clear();
                            n += 1;
                        } else {
                            cur.push(l);
                        }
                    }
                    for _ in n..group.len() {
                        out.push(Answer::Timeout);
                    }
                }
            }
        }
        out
    }

    /// One self-contained query: push, body, check-sat, pop.
    pub fn check_once(&mut self, body: &str) -> Answer {
        self.push();
        let a = self.check(body);
        if a != Answer::Timeout {
            self.pop();
        }
        a
    }

    /// get-value of the given terms (after a `sat`). Returns the raw value strings.
    pub fn get_values(&mut self, terms: &[String]) -> Option<Vec<String>> {
        if terms.is_empty() {
            return Some(vec![]);
        }
        let mut out = vec![];
        // ask one by one: keeps parsing trivial
        for chunk in terms.chunks(64) {
            let mut text = String::new();
            for t in chunk {
                text.push_str(&format!("(get-value ({t}))\n"));
            }
            let lines = self.exchange(&text)?;
            let joined = lines.join("\n");
            if joined.contains("(error") {
                return None;
            }
            let vals = split_get_values(&joined);
            if vals.len() != chunk.len() {
                return None;
            }
            out.extend(vals);
        }
        Some(out)
    }
}

impl Drop for Proc {
    fn drop(&mut self) {
        let _ = self.stdin.write_all(b"(exit)\n");
        let _ = self.child.kill();
        let _ = self.child.wait();
    }
}

pub fn is_resource_error(msg: &str) -> bool {
    let m = msg.to_ascii_lowercase();
    ["canceled", "cancelled", "timeout", "time out", "resource limit", "out of memory", "max. memory", "interrupted", "memory limit"].iter().any(|k| m.contains(k))
}

pub fn classify(lines: &[String]) -> Answer {
    let mut ans = None;
    for l in lines {
        let t = l.trim();
        if t.starts_with("(error") {
            // a cancelled command (per-query timer firing inside push/define, resource or memory limit) is
            // not a judgement about the text: inconclusive, never "rejected"
            if is_resource_error(t) {
                return Answer::Unknown;
            }
            return Answer::Error(t.to_string());
        }
        match t {
            "sat" => ans = ans.or(Some(Answer::Sat)),
            "unsat" => ans = ans.or(Some(Answer::Unsat)),
            "unknown" | "timeout" => ans = ans.or(Some(Answer::Unknown)),
            _ => {}
        }
    }
    ans.unwrap_or(Answer::Error(format!("no answer in {:?}", lines)))
}

/// Splits the concatenated output of several `(get-value (t))` commands – each of the form
/// `((t v))` – into the `v` strings.
pub fn split_get_values(s: &str) -> Vec<String> {
    // tokenise into top-level s-expressions
    let mut out = vec![];
    let b = s.as_bytes();
    let mut i = 0;
    while i < b.len() {
        if b[i] == b'(' {
            let start = i;
            let mut depth = 0i32;
            let mut in_bar = false;
            while i < b.len() {
                let c = b[i];
                if in_bar {
                    if c == b'|' {
                        in_bar = false;
                    }
                } else if c == b'|' {
                    in_bar = true;
                } else if c == b'(' {
                    depth += 1;
                } else if c == b')' {
                    depth -= 1;
                    if depth == 0 {
                        i += 1;
                        break;
                    }
                }
                i += 1;
            }
            let top = &s[start..i];
            // top = ((term value)); strip two parens, then skip the first s-expr (term)
            let inner = top.trim();
            let inner = &inner[1..inner.len() - 1].trim();
            let inner = &inner[1..inner.len() - 1].trim();
            let v = skip_sexpr(inner);
            out.push(v.trim().to_string());
        } else {
            i += 1;
        }
    }
    out
}

fn skip_sexpr(s: &str) -> &str {
    let b = s.as_bytes();
    let mut i = 0;
    while i < b.len() && b[i].is_ascii_whitespace() {
        i += 1;
    }
    if i < b.len() && b[i] == b'(' {
        let mut depth = 0;
        while i < b.len() {
            if b[i] == b'(' {
                depth += 1;
            } else if b[i] == b')' {
                depth -= 1;
                if depth == 0 {
                    i += 1;
                    break;
                }
            }
            i += 1;
        }
    } else if i < b.len() && b[i] == b'|' {
        i += 1;
        while i < b.len() && b[i] != b'|' {
            i += 1;
        }
        i += 1;
    } else {
        while i < b.len() && !b[i].is_ascii_whitespace() {
            i += 1;
        }
    }
    &s[i..]
}

/// Parse `#b…` / `#x…` / `(_ bvN w)` into a big integer.
pub fn parse_bv_value(s: &str) -> Option<num_bigint::BigUint> {
    let s = s.trim();
    if let Some(b) = s.strip_prefix("#b") {
        num_bigint::BigUint::parse_bytes(b.as_bytes(), 2)
    } else if let Some(h) = s.strip_prefix("#x") {
        num_bigint::BigUint::parse_bytes(h.as_bytes(), 16)
    } else if let Some(r) = s.strip_prefix("(_ bv") {
        let n = r.split_whitespace().next()?;
        num_bigint::BigUint::parse_bytes(n.as_bytes(), 10)
    } else if s == "true" {
        Some(1u32.into())
    } else if s == "false" {
        Some(0u32.into())
    } else {
        None
    }
}

pub fn solver_versions() -> (String, String) {
    let v = |cmd: &str, arg: &str| {
        Command::new(cmd)
            .arg(arg)
            .output()
            .ok()
            .map(|o| String::from_utf8_lossy(&o.stdout).lines().next().unwrap_or("").to_string())
            .unwrap_or_else(|| "missing".into())
    };
    (v(&z3_path(), "--version"), v("cvc5", "--version"))
}
