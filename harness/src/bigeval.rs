//! Independent big-integer evaluator of `Expr` written against the SMT-LIB FixedSizeBitVectors
//! and ArraysEx definitions (uses num-bigint, not baa). Used to confirm solver models before a
//! violation is reported, and as reference in C06's translator validation.

use crate::refsmt::{Op, Ty, decompose};
use baa::BitVecOps;
use num_bigint::BigUint;
use num_traits::{One, Zero};
use patronus::expr::{Context, Expr, ExprRef};
use std::collections::{BTreeMap, HashMap};

#[derive(Clone, Debug, PartialEq, Eq)]
pub enum Val {
    BV(BigUint, u32),
    Arr { iw: u32, dw: u32, default: BigUint, map: BTreeMap<BigUint, BigUint> },
}

impl Val {
    pub fn ty(&self) -> Ty {
        match self {
            Val::BV(_, w) => Ty::BV(*w),
            Val::Arr { iw, dw, .. } => Ty::Arr(*iw, *dw),
        }
    }
    pub fn bv(&self) -> (&BigUint, u32) {
        match self {
            Val::BV(v, w) => (v, *w),
            _ => panic!("expected bv value"),
        }
    }
    pub fn show(&self) -> String {
        match self {
            Val::BV(v, w) => format!("{w}'x{v:x}"),
            Val::Arr { default, map, iw, dw } => {
                let mut s = format!("arr<{iw},{dw}>[default {default:x}");
                for (k, v) in map {
                    s.push_str(&format!(", {k:x}:={v:x}"));
                }
                s.push(']');
                s
            }
        }
    }
    pub fn smt(&self) -> String {
        match self {
            Val::BV(v, w) => bv_smt(v, *w),
            Val::Arr { iw, dw, default, map } => {
                let mut s = format!("((as const (Array (_ BitVec {iw}) (_ BitVec {dw}))) {})", bv_smt(default, *dw));
                for (k, v) in map {
                    s = format!("(store {s} {} {})", bv_smt(k, *iw), bv_smt(v, *dw));
                }
                s
            }
        }
    }
    /// extensional normal form
    pub fn normalize(self) -> Val {
        match self {
            Val::Arr { iw, dw, default, mut map } => {
                // if the map covers the whole index space the default is irrelevant
                if iw <= 20 && map.len() as u64 == (1u64 << iw) {
                    // choose most frequent? keep simple: choose value at index 0
                    let d = map[&BigUint::zero()].clone();
                    map.retain(|_, v| *v != d);
                    Val::Arr { iw, dw, default: d, map }
                } else {
                    map.retain(|_, v| *v != default);
                    Val::Arr { iw, dw, default, map }
                }
            }
            v => v,
        }
    }
}

pub fn bv_smt(v: &BigUint, w: u32) -> String {
    let s = v.to_str_radix(2);
    assert!(s.len() as u32 <= w, "value {v} does not fit {w} bits");
    format!("#b{}{}", "0".repeat(w as usize - s.len()), s)
}

pub fn mask(w: u32) -> BigUint {
    (BigUint::one() << w) - BigUint::one()
}

fn to_signed(v: &BigUint, w: u32) -> num_bigint::BigInt {
    use num_bigint::BigInt;
    if v.bit((w - 1) as u64) { BigInt::from(v.clone()) - (BigInt::one() << w) } else { BigInt::from(v.clone()) }
}

fn from_signed(v: num_bigint::BigInt, w: u32) -> BigUint {
    use num_bigint::BigInt;
    let m: BigInt = BigInt::one() << w;
    let mut r = v % &m;
    if r < BigInt::zero() {
        r += &m;
    }
    r.to_biguint().unwrap()
}

fn arr_eq(a: &Val, b: &Val) -> bool {
    match (a, b) {
        (Val::Arr { iw, default: da, map: ma, .. }, Val::Arr { default: db, map: mb, .. }) => {
            // every explicitly mentioned index
            for k in ma.keys().chain(mb.keys()) {
                let va = ma.get(k).unwrap_or(da);
                let vb = mb.get(k).unwrap_or(db);
                if va != vb {
                    return false;
                }
            }
            // some index not mentioned anywhere?
            let mentioned: std::collections::BTreeSet<&BigUint> = ma.keys().chain(mb.keys()).collect();
            let total = BigUint::one() << *iw;
            if BigUint::from(mentioned.len()) < total { da == db } else { true }
        }
        _ => panic!("array eq on non-arrays"),
    }
}

pub fn eval_op(op: Op, params: [u32; 2], k: &[Val]) -> Val {
    let b = |i: usize| k[i].bv();
    let bit = |x: bool| Val::BV(if x { BigUint::one() } else { BigUint::zero() }, 1);
    match op {
        Op::BVSymbol | Op::ArraySymbol | Op::BVLiteral => unreachable!(),
        Op::ZeroExt => {
            let (v, w) = b(0);
            Val::BV(v.clone(), w + params[0])
        }
        Op::SignExt => {
            let (v, w) = b(0);
            let nw = w + params[0];
            if v.bit((w - 1) as u64) { Val::BV(v | (mask(params[0]) << w), nw) } else { Val::BV(v.clone(), nw) }
        }
        Op::Slice => {
            let (v, _) = b(0);
            let (hi, lo) = (params[0], params[1]);
            Val::BV((v >> lo) & mask(hi - lo + 1), hi - lo + 1)
        }
        Op::Not => {
            let (v, w) = b(0);
            Val::BV(v ^ mask(w), w)
        }
        Op::Neg => {
            let (v, w) = b(0);
            Val::BV(((BigUint::one() << w) - v) & mask(w), w)
        }
        Op::Equal => bit(b(0).0 == b(1).0),
        Op::ArrayEqual => bit(arr_eq(&k[0], &k[1])),
        Op::Implies => bit(b(0).0.is_zero() || !b(1).0.is_zero()),
        Op::Ugt => bit(b(0).0 > b(1).0),
        Op::Uge => bit(b(0).0 >= b(1).0),
        Op::Sgt => bit(to_signed(b(0).0, b(0).1) > to_signed(b(1).0, b(1).1)),
        Op::Sge => bit(to_signed(b(0).0, b(0).1) >= to_signed(b(1).0, b(1).1)),
        Op::Concat => {
            let (a, wa) = b(0);
            let (c, wc) = b(1);
            Val::BV((a << wc) | c, wa + wc)
        }
        Op::And => Val::BV(b(0).0 & b(1).0, b(0).1),
        Op::Or => Val::BV(b(0).0 | b(1).0, b(0).1),
        Op::Xor => Val::BV(b(0).0 ^ b(1).0, b(0).1),
        Op::Shl => {
            let (a, w) = b(0);
            let (s, _) = b(1);
            if *s >= BigUint::from(w) {
                Val::BV(BigUint::zero(), w)
            } else {
                let s: u32 = s.try_into().unwrap();
                Val::BV((a << s) & mask(w), w)
            }
        }
        Op::Lshr => {
            let (a, w) = b(0);
            let (s, _) = b(1);
            if *s >= BigUint::from(w) {
                Val::BV(BigUint::zero(), w)
            } else {
                let s: u32 = s.try_into().unwrap();
                Val::BV(a >> s, w)
            }
        }
        Op::Ashr => {
            let (a, w) = b(0);
            let (s, _) = b(1);
            let neg = a.bit((w - 1) as u64);
            if *s >= BigUint::from(w) {
                Val::BV(if neg { mask(w) } else { BigUint::zero() }, w)
            } else {
                let s: u32 = s.try_into().unwrap();
                let mut r = a >> s;
                if neg && s > 0 {
                    r |= mask(s) << (w - s);
                }
                Val::BV(r, w)
            }
        }
        Op::Add => Val::BV((b(0).0 + b(1).0) & mask(b(0).1), b(0).1),
        Op::Sub => {
            let w = b(0).1;
            Val::BV(((BigUint::one() << w) + b(0).0 - b(1).0) & mask(w), w)
        }
        Op::Mul => Val::BV((b(0).0 * b(1).0) & mask(b(0).1), b(0).1),
        Op::Udiv => {
            let w = b(0).1;
            if b(1).0.is_zero() { Val::BV(mask(w), w) } else { Val::BV(b(0).0 / b(1).0, w) }
        }
        Op::Urem => {
            let w = b(0).1;
            if b(1).0.is_zero() { Val::BV(b(0).0.clone(), w) } else { Val::BV(b(0).0 % b(1).0, w) }
        }
        Op::Sdiv => {
            // SMT-LIB: defined via bvudiv on magnitudes
            let w = b(0).1;
            let (s, t) = (b(0).0.clone(), b(1).0.clone());
            let ms = s.bit((w - 1) as u64);
            let mt = t.bit((w - 1) as u64);
            let neg = |x: &BigUint| ((BigUint::one() << w) - x) & mask(w);
            let udiv = |a: &BigUint, c: &BigUint| if c.is_zero() { mask(w) } else { a / c };
            let r = match (ms, mt) {
                (false, false) => udiv(&s, &t),
                (true, false) => neg(&udiv(&neg(&s), &t)),
                (false, true) => neg(&udiv(&s, &neg(&t))),
                (true, true) => udiv(&neg(&s), &neg(&t)),
            };
            Val::BV(r, w)
        }
        Op::Srem => {
            let w = b(0).1;
            let (s, t) = (b(0).0.clone(), b(1).0.clone());
            let ms = s.bit((w - 1) as u64);
            let mt = t.bit((w - 1) as u64);
            let neg = |x: &BigUint| ((BigUint::one() << w) - x) & mask(w);
            let urem = |a: &BigUint, c: &BigUint| if c.is_zero() { a.clone() } else { a % c };
            let r = match (ms, mt) {
                (false, false) => urem(&s, &t),
                (true, false) => neg(&urem(&neg(&s), &t)),
                (false, true) => urem(&s, &neg(&t)),
                (true, true) => neg(&urem(&neg(&s), &neg(&t))),
            };
            Val::BV(r, w)
        }
        Op::Smod => {
            let w = b(0).1;
            let (s, t) = (b(0).0.clone(), b(1).0.clone());
            let ms = s.bit((w - 1) as u64);
            let mt = t.bit((w - 1) as u64);
            let neg = |x: &BigUint| ((BigUint::one() << w) - x) & mask(w);
            let urem = |a: &BigUint, c: &BigUint| if c.is_zero() { a.clone() } else { a % c };
            let abs_s = if ms { neg(&s) } else { s.clone() };
            let abs_t = if mt { neg(&t) } else { t.clone() };
            let u = urem(&abs_s, &abs_t);
            let r = if u.is_zero() {
                u
            } else {
                match (ms, mt) {
                    (false, false) => u,
                    (true, false) => (neg(&u) + &t) & mask(w),
                    (false, true) => (u + &t) & mask(w),
                    (true, true) => neg(&u),
                }
            };
            Val::BV(r, w)
        }
        Op::ArrayRead => match &k[0] {
            Val::Arr { default, map, .. } => {
                let (i, _) = b(1);
                let (_, dw) = match k[0].ty() {
                    Ty::Arr(i, d) => (i, d),
                    _ => unreachable!(),
                };
                Val::BV(map.get(i).unwrap_or(default).clone(), dw)
            }
            _ => panic!("read of non-array"),
        },
        Op::Ite | Op::ArrayIte => {
            if b(0).0.is_zero() { k[2].clone() } else { k[1].clone() }
        }
        Op::ArrayConst => Val::Arr { iw: params[0], dw: params[1], default: b(0).0.clone(), map: BTreeMap::new() },
        Op::ArrayStore => match &k[0] {
            Val::Arr { iw, dw, default, map } => {
                let mut m = map.clone();
                m.insert(b(1).0.clone(), b(2).0.clone());
                Val::Arr { iw: *iw, dw: *dw, default: default.clone(), map: m }
            }
            _ => panic!("store into non-array"),
        },
    }
}

pub fn lit_value(ctx: &Context, e: ExprRef) -> Option<Val> {
    match &ctx[e] {
        Expr::BVLiteral(v) => {
            let s = v.get(ctx).to_bit_str();
            Some(Val::BV(BigUint::parse_bytes(s.as_bytes(), 2).unwrap(), v.width()))
        }
        _ => None,
    }
}

/// Evaluate `root` under `env` (symbols → values). Values supplied for non-symbol nodes
/// short-circuit (used by C06).
pub fn eval(ctx: &Context, env: &HashMap<ExprRef, Val>, root: ExprRef) -> Result<Val, String> {
    let mut memo: HashMap<ExprRef, Val> = HashMap::new();
    let mut stack = vec![(root, false)];
    while let Some((e, done)) = stack.pop() {
        if memo.contains_key(&e) {
            continue;
        }
        if let Some(v) = env.get(&e) {
            memo.insert(e, v.clone());
            continue;
        }
        let n = decompose(&ctx[e]);
        match n.op {
            Op::BVSymbol | Op::ArraySymbol => return Err(format!("no value for symbol #{}", usize::from(e))),
            Op::BVLiteral => {
                memo.insert(e, lit_value(ctx, e).unwrap());
                continue;
            }
            _ => {}
        }
        if !done {
            stack.push((e, true));
            for c in n.kids.iter() {
                if !memo.contains_key(c) {
                    stack.push((*c, false));
                }
            }
        } else {
            let k: Vec<Val> = n.kids.iter().map(|c| memo[c].clone()).collect();
            memo.insert(e, eval_op(n.op, n.params, &k));
        }
    }
    Ok(memo.remove(&root).unwrap())
}

pub fn vals_equal(a: &Val, b: &Val) -> bool {
    match (a, b) {
        (Val::BV(x, wx), Val::BV(y, wy)) => wx == wy && x == y,
        (Val::Arr { .. }, Val::Arr { .. }) => arr_eq(a, b),
        _ => false,
    }
}
