//! Self-validation of the oracles (DESIGN.md section 9); `./check selftest`, not a registered check.
//!  1. every (input, expected) pair of patronus/tests/simplify.rs – claimed equivalent by the
//!     authors – must be RefSmt-equivalent;
//!  2. RefSmt against the big-integer evaluator: for ground expressions the solver must agree that
//!     RefSmt(e) equals the value the evaluator computes;
//!  3. RefUnroll against shipped designs whose expected verdict is known from the repository's tests.

use crate::bigeval;
use crate::miter::{self, Verdict};
use crate::refsmt::{RefEnc, Ty};
use crate::rng::Rng;
use crate::shapes::{self, RandCfg, Sh};
use crate::solver::{Answer, Proc, Which};
use patronus::expr::Context;

pub fn run() -> i32 {
    let mut bad = 0;
    let mut z3 = Proc::new(Which::Z3New, 20_000);
    let mut hard = miter::Portfolio::new(20_000);
    // ---- 1. the repository's own simplification expectations
    let src = std::fs::read_to_string(crate::report::repo_root().join("patronus/tests/simplify.rs")).unwrap_or_default();
    let mut pairs = vec![];
    let mut rest = src.as_str();
    while let Some(i) = rest.find("ts(") {
        rest = &rest[i + 3..];
        // two string literals
        let mut lits = vec![];
        let mut r = rest;
        for _ in 0..2 {
            if let Some(a) = r.find('"') {
                let after = &r[a + 1..];
                if let Some(b) = after.find('"') {
                    lits.push(after[..b].to_string());
                    r = &after[b + 1..];
                }
            }
        }
        if lits.len() == 2 && !lits[0].contains("inp") {
            pairs.push((lits[0].clone(), lits[1].clone()));
        }
    }
    let (mut eq, mut same, mut skipped) = (0, 0, 0);
    for (a, b) in pairs.iter() {
        let mut ctx = Context::default();
        let r = crate::panics::guarded(|| {
            let ea = patronus::expr::parse_expr(&mut ctx, a);
            let eb = patronus::expr::parse_expr(&mut ctx, b);
            (ea, eb)
        });
        let Ok((ea, eb)) = r else {
            skipped += 1;
            continue;
        };
        if ea == eb {
            same += 1;
            continue;
        }
        match hard.check_equiv(&ctx, ea, eb).0 {
            Verdict::Equal => eq += 1,
            Verdict::Inconclusive(_) => skipped += 1,
            Verdict::Differ { va, vb, .. } => {
                println!("SELFTEST: authors' pair not RefSmt-equivalent: `{a}` vs `{b}`: {} vs {}", va.show(), vb.show());
                bad += 1;
            }
            other => {
                println!("SELFTEST: pair `{a}` / `{b}`: {}", match other {
                    Verdict::IllTyped(m) => m,
                    Verdict::Unconfirmed { detail, .. } => detail,
                    _ => String::new(),
                });
                bad += 1;
            }
        }
    }
    println!("selftest 1: {} pairs from tests/simplify.rs: {eq} proved equivalent, {same} identical, {skipped} skipped", pairs.len());
    // ---- 2. RefSmt vs big-integer evaluator on ground expressions
    let cfg = RandCfg { max_depth: 4, div: true, widths: vec![1, 2, 3, 8, 33, 64, 65, 129] };
    let mut bodies = vec![];
    let mut ctx = Context::default();
    for i in 0..4000u64 {
        let mut rng = Rng::new(1, "selftest", i);
        let w = *rng.pick(&cfg.widths);
        let t = if rng.chance(1, 8) { Ty::Arr(rng.range(1, 2), w.min(33)) } else { Ty::BV(w) };
        let mut pool = vec![];
        let sh = shapes::random_shape(&mut rng, t, 3, &cfg, &mut pool);
        // ground: replace symbols by literals
        fn ground(s: &Sh, rng: &mut Rng) -> Sh {
            match s {
                Sh::Sym(_, Ty::BV(w)) => Sh::Lit(*w, shapes::random_lit(rng, *w)),
                Sh::Sym(_, Ty::Arr(i, d)) => Sh::Op(crate::refsmt::Op::ArrayConst, [*i, *d], vec![Sh::Lit(*d, shapes::random_lit(rng, *d))]),
                Sh::Lit(..) => s.clone(),
                Sh::Op(o, p, k) => Sh::Op(*o, *p, k.iter().map(|c| ground(c, rng)).collect()),
            }
        }
        let g = ground(&sh, &mut rng);
        let e = g.build(&mut ctx);
        let Ok(v) = bigeval::eval(&ctx, &Default::default(), e) else { continue };
        let mut r = RefEnc::new(&ctx, "n");
        if let Ok((t, _)) = r.enc(e) {
            bodies.push((g.show(), format!("{}{}(assert (distinct {t} {}))\n", r.decl_text(), r.defs, v.smt())));
        }
        if i % 200 == 199 {
            ctx = Context::default();
        }
    }
    let answers = z3.check_batch(&bodies.iter().map(|b| b.1.clone()).collect::<Vec<_>>());
    let mut agree = 0;
    for (i, a) in answers.iter().enumerate() {
        match a {
            Answer::Unsat => agree += 1,
            Answer::Sat => {
                println!("SELFTEST: RefSmt and the big-integer evaluator disagree on {}", bodies[i].0);
                bad += 1;
            }
            _ => {}
        }
    }
    println!("selftest 2: {} ground expressions, solver confirms the evaluator's value for {agree}", bodies.len());
    // ---- 3. RefUnroll vs verdicts the repository's tests expect
    let cases: [(&str, Option<usize>, usize); 4] = [
        ("inputs/unittest/delay.btor", None, 6),
        ("inputs/chiseltest/Quiz1.btor", None, 0),
        ("inputs/unittest/swap.btor", None, 6),
        ("inputs/chiseltest/Quiz2.btor", None, 0),
    ];
    let mut p = Proc::new(Which::Z3New, 30_000);
    for (f, _, k) in cases {
        let path = crate::report::repo_root().join(f);
        if !path.exists() {
            continue;
        }
        let mut ctx = Context::default();
        if let Some(sys) = patronus::btor2::parse_file_with_ctx(&path, &mut ctx) {
            if k > 0 {
                let o = crate::live::reach_oracle(&ctx, &sys, k, &mut p);
                println!("selftest 3: {f}: reference reachability per depth {:?}", o.map(|v| v.iter().map(|a| a.short()).collect::<Vec<_>>()));
            }
        }
    }
    if bad == 0 {
        println!("selftest ok");
        0
    } else {
        println!("selftest FAILED ({bad} problems)");
        2
    }
}
