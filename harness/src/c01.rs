//! C01 — simplification never changes the meaning or type of an expression.
//! Real code: simplify_single_expression, Simplifier<Sparse>, Simplifier<Dense>,
//! system::transform::simplify_expressions. Oracle: RefSmt miter decided by z3 (cvc5 re-check).

use crate::miter::{self, Verdict};
use crate::refsmt::{self, Op, RefEnc, Ty, decompose};
use crate::report::{Report, Role, Tier};
use crate::rng::Rng;
use crate::shapes::{self, LeafMode, RandCfg, Sh};
use crate::solver::{Proc, Which};
use patronus::expr::{Context, DenseExprMetaData, ExprRef, Simplifier, SparseExprMap, TypeCheck, simplify_single_expression};
use patronus::system::TransitionSystem;
use rayon::prelude::*;
use serde_json::json;

pub const SITE: &str = "expr::simplify (simplify_single_expression / Simplifier / simplify_expressions)";

pub fn widths(tier: Tier) -> Vec<u32> {
    match tier {
        Tier::Quick => vec![1, 2, 5, 32, 33, 64, 65, 128, 129],
        Tier::Thorough => vec![1, 2, 3, 5, 8, 31, 32, 33, 63, 64, 65, 127, 128, 129],
    }
}

pub fn generate(tier: Tier, seed: u64) -> Vec<Sh> {
    let mut out: Vec<Sh> = vec![];
    let ws = widths(tier);
    // depth 1, all literal classes
    for &w in ws.iter() {
        let mut sigs = shapes::signatures(Ty::BV(w), w, true);
        if w != 1 {
            // comparison / predicate roots over operands of width w
            sigs.extend(shapes::signatures(Ty::BV(1), w, true).into_iter().filter(|s| {
                matches!(s.op, Op::Equal | Op::Ugt | Op::Sgt | Op::Uge | Op::Sge | Op::ArrayEqual)
            }));
        }
        for iw in [1u32, 2] {
            sigs.extend(shapes::signatures(Ty::Arr(iw, w.min(65)), w, true));
        }
        for sig in sigs.iter() {
            out.extend(shapes::depth1(sig, LeafMode::Full));
        }
    }
    // depth 2
    let ws2: Vec<u32> = match tier {
        Tier::Quick => vec![1, 5, 33, 65],
        Tier::Thorough => vec![1, 2, 5, 8, 32, 33, 64, 65, 128, 129],
    };
    for &w in ws2.iter() {
        let mut sigs = shapes::signatures(Ty::BV(w), w, true);
        if w != 1 {
            sigs.extend(shapes::signatures(Ty::BV(1), w, true).into_iter().filter(|s| {
                matches!(s.op, Op::Equal | Op::Ugt | Op::Sgt | Op::Uge | Op::Sge | Op::ArrayEqual)
            }));
        }
        sigs.extend(shapes::signatures(Ty::Arr(2, w.min(33)), w, true));
        for sig in sigs.iter() {
            out.extend(shapes::depth2(sig, w, true));
        }
    }
    // depth 2, structured operands in two positions at once (rules that look at both operands)
    let ws3: Vec<u32> = match tier {
        Tier::Quick => vec![1, 5, 65],
        Tier::Thorough => vec![1, 2, 5, 8, 33, 64, 65, 128],
    };
    for &w in ws3.iter() {
        let mut sigs = shapes::signatures(Ty::BV(w), w, true);
        if w != 1 {
            sigs.extend(shapes::signatures(Ty::BV(1), w, true).into_iter().filter(|s| {
                matches!(s.op, Op::Equal | Op::Ugt | Op::Sgt | Op::Uge | Op::Sge | Op::ArrayEqual)
            }));
        }
        sigs.extend(shapes::signatures(Ty::Arr(2, w.min(33)), w, true));
        for sig in sigs.iter().filter(|s| s.kids.len() >= 2) {
            out.extend(shapes::depth2_pairs(sig, w, true));
        }
    }
    for &w in ws.iter() {
        out.extend(shapes::slice_concat_family(w));
    }
    // seeded deeper DAGs
    let n = tier.pick(3000usize, 60000usize);
    let cfg_small = RandCfg { max_depth: 5, div: true, widths: vec![1, 2, 3, 4, 5, 8] };
    let cfg_big = RandCfg { max_depth: 4, div: true, widths: vec![1, 8, 32, 33, 64, 65, 128, 129] };
    for i in 0..n {
        let mut rng = Rng::new(seed, "C01-dag", i as u64);
        let cfg = if i % 2 == 0 { &cfg_small } else { &cfg_big };
        let w = *rng.pick(&cfg.widths);
        let t = if rng.chance(1, 10) { Ty::Arr(rng.range(1, 2), w.min(33)) } else { Ty::BV(w) };
        let d = rng.range(3, cfg.max_depth as u32) as usize;
        let mut pool = vec![];
        out.push(shapes::random_shape(&mut rng, t, d, cfg, &mut pool));
    }
    out
}

fn all_nodes(ctx: &Context, root: ExprRef) -> Vec<ExprRef> {
    let mut seen = std::collections::HashSet::new();
    let mut stack = vec![root];
    let mut out = vec![];
    while let Some(e) = stack.pop() {
        if seen.insert(e) {
            out.push(e);
            stack.extend(decompose(&ctx[e]).kids);
        }
    }
    out
}

fn kind_of(ctx: &Context, e: ExprRef) -> String {
    let n = decompose(&ctx[e]);
    match n.op {
        Op::BVLiteral => "lit".into(),
        Op::BVSymbol | Op::ArraySymbol => "sym".into(),
        o => o.name().into(),
    }
}

/// operand class of a failing node (role key component)
pub fn classify(ctx: &Context, e: ExprRef) -> (String, String) {
    let n = decompose(&ctx[e]);
    let mut parts = vec![];
    let opw = n.kids.first().and_then(|k| RefEnc::type_of(ctx, *k).ok()).and_then(|t| t.bv());
    let resw = RefEnc::type_of(ctx, e).ok().and_then(|t| t.bv());
    let w = opw.or(resw).unwrap_or(0);
    parts.push(if w > 64 { "w>64".to_string() } else { "w<=64".to_string() });
    parts.push(n.kids.iter().map(|k| kind_of(ctx, *k)).collect::<Vec<_>>().join(","));
    if n.kids.len() == 2 && n.kids[0] == n.kids[1] {
        parts.push("equal-operands".into());
    }
    if matches!(n.op, Op::Shl | Op::Lshr | Op::Ashr) {
        if let Some(crate::bigeval::Val::BV(v, _)) = crate::bigeval::lit_value(ctx, n.kids[1]) {
            let c = if v >= shapes::pow2(32) {
                "amt>=2^32"
            } else if v >= num_bigint::BigUint::from(w) {
                "w<=amt<2^32"
            } else {
                "amt<w"
            };
            parts.push(c.into());
        }
    }
    (n.op.name().to_string(), parts.join(";"))
}

struct Worker {
    z3: Proc,
    cvc5: Option<Proc>,
    hard: miter::Portfolio,
    rep: Report,
}

/// The node the failing rule actually saw: `e` with its children replaced by their simplified
/// forms, descending while some child's own simplification is already wrong.
fn minimize(ctx: &mut Context, p: &mut miter::Portfolio, e: ExprRef) -> ExprRef {
    let mut cur = e;
    'outer: loop {
        let n = decompose(&ctx[cur]);
        let mut simp_kids = vec![];
        for k in n.kids.iter() {
            let s = match crate::panics::guarded(|| simplify_single_expression(ctx, *k)) {
                Ok(s) => s,
                Err(_) => {
                    cur = *k;
                    continue 'outer;
                }
            };
            if s != *k {
                if let (Verdict::Differ { .. }, _) = p.check_equiv(ctx, *k, s) {
                    cur = *k;
                    continue 'outer;
                }
            }
            simp_kids.push(s);
        }
        if n.kids.is_empty() {
            return cur;
        }
        return shapes::build_op(ctx, n.op, n.params, &simp_kids);
    }
}

struct Job {
    idx: usize,
    entry: &'static str,
    e: ExprRef,
    s: ExprRef,
}

/// phase A: run the real code, check the type clauses, emit jobs for the solver
/// simplifier instances that live as long as the Context of a sub-chunk: their caches carry the history of all
/// earlier shapes (a result must not depend on what was simplified before - and must still be right)
pub struct Shared {
    sparse: Simplifier<SparseExprMap<Option<ExprRef>>>,
    dense: Simplifier<DenseExprMetaData<Option<ExprRef>>>,
}

impl Shared {
    pub fn new() -> Self {
        Shared { sparse: Simplifier::new(SparseExprMap::default()), dense: Simplifier::new(DenseExprMetaData::default()) }
    }
}

fn native_phase(rep: &mut Report, ctx: &mut Context, shared: &mut Shared, sh: &Sh, idx: usize, jobs: &mut Vec<Job>) {
    rep.count("programs", 1);
    let e = sh.build(ctx);
    let in_ty = match RefEnc::type_of(ctx, e) {
        Ok(t) => t,
        Err(refsmt::IllTyped(m)) => {
            rep.undecided.push(format!("generator produced ill-typed input {}: {m}", sh.show()));
            return;
        }
    };
    let results = crate::panics::guarded(|| {
        let s1 = simplify_single_expression(ctx, e);
        let mut sp = Simplifier::new(SparseExprMap::default());
        let s2 = sp.simplify(ctx, e);
        let mut de = Simplifier::new(DenseExprMetaData::default());
        let s3 = de.simplify(ctx, e);
        // system-wide driver
        let mut sys = TransitionSystem::new("c01".into());
        let mut syms = vec![];
        sh.symbols(&mut syms);
        for (i, t) in syms.iter() {
            let s = Sh::Sym(*i, *t).build(ctx);
            sys.add_input(ctx, s);
        }
        sys.add_output(ctx, "out".into(), e);
        if in_ty == Ty::BV(1) {
            sys.bad_states.push(e);
        }
        patronus::system::transform::simplify_expressions(ctx, &mut sys);
        let s4 = sys.outputs[0].expr;
        let s5 = if in_ty == Ty::BV(1) { Some(sys.bad_states[0]) } else { None };
        // long-lived instances (history of all earlier shapes of this sub-chunk in their caches)
        let s6 = if idx % 2 == 0 { shared.sparse.simplify(ctx, e) } else { shared.dense.simplify(ctx, e) };
        (s1, s2, s3, s4, s5, s6)
    });
    let (s1, s2, s3, s4, s5, s6) = match results {
        Ok(r) => r,
        Err((loc, msg)) => {
            rep.count("panics", 1);
            // descend to the smallest sub-expression on which the simplifier panics
            let mut cur = e;
            'outer: loop {
                for k in decompose(&ctx[cur]).kids {
                    if crate::panics::guarded(|| simplify_single_expression(ctx, k)).is_err() {
                        cur = k;
                        continue 'outer;
                    }
                }
                break;
            }
            let (op, _) = classify(ctx, cur);
            rep.violation(
                Role::new(SITE, &op, &format!("panic@{loc}")),
                format!("simplifier panicked ({msg}) on {}", sh.show()),
                json!({"shape": sh.to_json(), "shape_text": sh.show(), "kind": "panic", "location": loc, "message": msg,
                    "smallest_panicking_subexpression": show(ctx, cur)}),
            );
            return;
        }
    };
    let mut outs: Vec<(&'static str, ExprRef)> = vec![("single", s1)];
    for (n, s) in [("sparse", s2), ("dense", s3), ("system-output", s4), ("long-lived-instance", s6)] {
        if !outs.iter().any(|(_, o)| *o == s) {
            outs.push((n, s));
        } else {
            rep.count("entry_points_same_reference", 1);
        }
    }
    if let Some(s) = s5 {
        if !outs.iter().any(|(_, o)| *o == s) {
            outs.push(("system-bad", s));
        }
    }
    for (entry, s) in outs {
        rep.count("obligations", 1);
        // type clauses
        let mut type_problem: Option<String> = None;
        match RefEnc::type_of(ctx, s) {
            Err(refsmt::IllTyped(m)) => type_problem = Some(format!("result ill-typed (independent check): {m}")),
            Ok(t) if t != in_ty => type_problem = Some(format!("type changed {in_ty:?} -> {t:?}")),
            _ => {}
        }
        if type_problem.is_none() {
            for n in all_nodes(ctx, s) {
                if let Err(err) = n.type_check(ctx) {
                    type_problem = Some(format!("TypeCheck::type_check fails on node of result: {}", err.get_msg()));
                    break;
                }
            }
        }
        if let Some(tp) = type_problem {
            let (op, class) = classify(ctx, e);
            rep.violation(
                Role::new(SITE, &op, &format!("type;{class}")),
                format!("{tp}: {} => {}", sh.show(), show(ctx, s)),
                json!({"shape": sh.to_json(), "shape_text": sh.show(), "entry": entry, "kind": "type", "detail": tp}),
            );
            continue;
        }
        if s == e {
            rep.count("identical_by_hash_consing", 1);
            rep.count("discharged", 1);
            continue;
        }
        jobs.push(Job { idx, entry, e, s });
    }
}

/// phase C: one job that stage 1 did not discharge – precise miter, model, replay
fn precise_phase(w: &mut Worker, ctx: &mut Context, sh: &Sh, job: &Job) {
    let rep = &mut w.rep;
    let (e, s, entry) = (job.e, job.s, job.entry);
    let t0 = std::time::Instant::now();
    let (v, text) = w.hard.check_equiv(ctx, e, s);
    rep.count("precise_miters", 1);
    let ms = t0.elapsed().as_millis() as u64;
    rep.count("precise_ms", ms);
    if ms > 500 {
        rep.count("precise_over_500ms", 1);
        if std::env::var("PVERIF_SLOW").is_ok() {
            eprintln!("SLOW {ms} ms: {} => {}", sh.show(), show(ctx, s));
        }
    }
    match v {
        Verdict::Equal => {
            rep.count("discharged", 1);
            rep.sample(json!({"input": sh.show(), "output": show(ctx, s), "answer": "unsat (precise stage)", "entry": entry, "smt2": text}), 6);
        }
        Verdict::Differ { model, va, vb } => {
            rep.count("disagreements_checked", 1);
            let m = minimize(ctx, &mut w.hard, e);
            let (op, class) = classify(ctx, m);
            let real_a = miter::real_eval(ctx, &model, e);
            let real_b = miter::real_eval(ctx, &model, s);
            rep.violation(
                Role::new(SITE, &op, &class),
                format!(
                    "simplify({}) = {} differs: under [{}] original = {}, simplified = {}",
                    sh.show(),
                    show(ctx, s),
                    model.iter().map(|(e, _, v)| format!("{}={}", ctx.get_symbol_name(*e).unwrap_or("?"), v.show())).collect::<Vec<_>>().join(", "),
                    va.show(),
                    vb.show()
                ),
                json!({"shape": sh.to_json(), "shape_text": sh.show(), "entry": entry, "kind": "value",
                    "simplified": show(ctx, s), "model": miter::model_json(ctx, &model),
                    "reference_value_original": va.show(), "reference_value_simplified": vb.show(),
                    "real_eval_original": real_a, "real_eval_simplified": real_b,
                    "rule_input_after_minimisation": show(ctx, m), "smt2": text}),
            );
        }
        Verdict::Unconfirmed { model, detail } => {
            rep.undecided.push(format!(
                "ENCODING-ERROR: model for {} not confirmed by big-integer evaluator: {detail}; model {}",
                sh.show(),
                miter::model_json(ctx, &model)
            ));
        }
        Verdict::Inconclusive(why) => rep.inconc(json!({"input": sh.show(), "output": show(ctx, s), "why": why})),
        Verdict::IllTyped(m) => {
            rep.undecided.push(format!("miter ill-typed after passing type clauses?! {m}"));
        }
    }
}

fn run_chunk(w: &mut Worker, chunk: &[Sh], base: usize, thorough: bool) {
    // sub-chunks share a Context (hash-consing keeps it small) and one batch
    for (sci, sub) in chunk.chunks(100).enumerate() {
        let mut ctx = Context::default();
        let mut shared = Shared::new();
        let mut jobs = vec![];
        for (i, sh) in sub.iter().enumerate() {
            crate::panics::set_context(format!("C01 shape {}", sh.show()));
            native_phase(&mut w.rep, &mut ctx, &mut shared, sh, base + sci * 100 + i, &mut jobs);
        }
        // phase B: stage 1, abstract miters, pipelined
        let mut bodies = vec![];
        let mut ok = vec![];
        for j in jobs.iter() {
            match refsmt::miter_opt(&ctx, j.e, j.s, true) {
                Ok(m) => {
                    bodies.push(m.text);
                    ok.push(true);
                }
                Err(_) => ok.push(false),
            }
        }
        let answers = w.z3.check_batch(&bodies);
        let mut ai = 0;
        for (ji, j) in jobs.iter().enumerate() {
            let sh = &sub[j.idx - base - sci * 100];
            if !ok[ji] {
                w.rep.undecided.push(format!("miter ill-typed after passing type clauses: {}", sh.show()));
                continue;
            }
            let a = &answers[ai];
            let body = &bodies[ai];
            ai += 1;
            if *a == crate::solver::Answer::Unsat {
                w.rep.count("discharged", 1);
                w.rep.count("discharged_stage1", 1);
                if j.idx % 1999 == 0 {
                    w.rep.sample(json!({"input": sh.show(), "output": show(&ctx, j.s), "answer": "unsat", "entry": j.entry, "smt2": body}), 10);
                }
                if thorough && j.idx % 20 == 0 {
                    if let Ok(m) = refsmt::miter(&ctx, j.e, j.s) {
                        if m.cvc5_ok {
                            let c = w.cvc5.get_or_insert_with(|| Proc::new(Which::Cvc5, 30_000));
                            w.rep.count("cvc5_rechecks", 1);
                            let a = c.check_once(&m.text);
                            if a == crate::solver::Answer::Sat {
                                w.rep.undecided.push(format!("z3 unsat / cvc5 sat on {}", sh.show()));
                            } else if a == crate::solver::Answer::Unsat {
                                w.rep.count("cvc5_agree", 1);
                            }
                        }
                    }
                }
            } else {
                precise_phase(w, &mut ctx, sh, j);
            }
        }
    }
}

pub fn show(ctx: &Context, e: ExprRef) -> String {
    use patronus::expr::SerializableIrNode;
    let s = e.serialize_to_str(ctx);
    if s.len() > 400 { format!("{}…", &s[..400]) } else { s }
}

/// canaries: deliberately wrong "simplifications" that must come back sat
fn canaries(rep: &mut Report) {
    let mut ctx = Context::default();
    let mut p = Proc::new(Which::Z3New, 10_000);
    let mut ok = 0;
    let mut total = 0;
    for w in [2u32, 8, 65, 129] {
        let a = ctx.bv_symbol("a", w);
        let b = ctx.bv_symbol("b", w);
        let pairs = [
            (ctx.sub(a, b), ctx.sub(b, a)),
            (ctx.greater_or_equal(a, b), ctx.greater(a, b)),
            (ctx.arithmetic_shift_right(a, b), ctx.shift_right(a, b)),
            (ctx.or(a, b), ctx.xor(a, b)),
        ];
        for (x, y) in pairs {
            total += 1;
            if let (Verdict::Differ { .. }, _) = miter::check_equiv(&ctx, &mut p, x, y) {
                ok += 1;
            }
        }
    }
    rep.count("canaries", total);
    rep.count("canaries_sat", ok);
    if ok != total {
        rep.undecided.push(format!("canary failure: {ok}/{total} perturbed miters came back sat"));
    }
}

pub fn run(tier: Tier, seed: u64, replay: Option<serde_json::Value>) -> i32 {
    let mut rep = Report::new("C01", tier, seed, "translation_validation");
    let instances: Vec<Sh> = match &replay {
        Some(r) => {
            rep.write_files = false;
            vec![Sh::from_json(&r["replay"]["shape"]).expect("replay file has no shape")]
        }
        None => generate(tier, seed),
    };
    let timeout = tier.pick(10_000u64, 30_000u64);
    canaries(&mut rep);
    let chunks: Vec<(usize, &[Sh])> = instances.chunks(400).enumerate().collect();
    let parts: Vec<Report> = chunks
        .par_iter()
        .map(|(ci, chunk)| {
            let mut w = Worker { z3: Proc::new(Which::Z3New, 3000), cvc5: None, hard: miter::Portfolio::new(timeout), rep: Report::new("C01", tier, seed, "translation_validation") };
            run_chunk(&mut w, chunk, ci * 400, tier == Tier::Thorough);
            w.rep.count("solver_time_ms", w.z3.solver_time.as_millis() as u64);
            w.rep.count("solver_queries", w.z3.queries);
            let (ht, hq) = w.hard.stats();
            w.rep.count("solver_time_ms", ht);
            w.rep.count("solver_queries", hq);
            if let Some(c) = w.cvc5.as_ref() {
                w.rep.count("solver_time_ms", c.solver_time.as_millis() as u64);
                w.rep.count("solver_queries", c.queries);
            }
            w.rep
        })
        .collect();
    for p in parts {
        rep.merge(p);
    }
    // statistics about the enumerated bound
    let mut by_root: std::collections::BTreeMap<String, u64> = Default::default();
    for s in instances.iter() {
        *by_root.entry(s.root_op().map(|o| o.name()).unwrap_or("leaf").to_string()).or_default() += 1;
    }
    rep.extra.insert("shapes_by_root_operator".into(), json!(by_root));
    rep.extra.insert(
        "bounds".into(),
        json!({"depth_exhaustive": 2, "depth_sampled": 5, "widths_depth1": widths(tier),
            "sampled_dags": tier.pick(3000, 60000), "literal_classes_at_width_65": shapes::literal_classes(65).len(),
            "per_query_cap_ms": timeout}),
    );
    rep.extra.insert(
        "functions_encoded".into(),
        json!(["expr::simplify_single_expression", "Simplifier<SparseExprMap>::simplify", "Simplifier<DenseExprMetaData>::simplify",
            "system::transform::simplify_expressions (do_transform, update_expressions)"]),
    );
    rep.extra.insert("outside_claim".into(), json!(["shapes deeper than 5", "widths outside the listed classes", "more than 3 distinct symbols per type and expression", "literal values outside the listed classes at widths > 3 (except seeded random ones)"]));
    let (z, c) = crate::solver::solver_versions();
    rep.extra.insert("solver".into(), json!({"z3": z, "cvc5": c}));
    rep.assumptions = vec![
        "RefSmt is the SMT-LIB reading of Expr (validated by `./check selftest`)".into(),
        "z3 4.8.12 (and cvc5 1.0 in the thorough tier) are sound on QF_ABV".into(),
        "expression shapes outside the enumerated bound are not covered".into(),
    ];
    rep.finish()
}
