//! Expression shapes: the enumerated (non-symbolic) bound of engine S.
//! A shape is a small AST that can be printed, stored in replay files and rebuilt through the
//! public `Context` builders.

use crate::refsmt::{Op, Ty};
use crate::rng::Rng;
use num_bigint::BigUint;
use num_traits::{One, Zero};
use patronus::expr::{Context, ExprRef};

#[derive(Clone, Debug, PartialEq, Eq, Hash)]
pub enum Sh {
    Sym(u8, Ty),
    Lit(u32, BigUint),
    Op(Op, [u32; 2], Vec<Sh>),
}

pub fn sym_name(idx: u8, ty: Ty) -> String {
    let l = (b'a' + idx) as char;
    match ty {
        Ty::BV(w) => format!("{l}{w}"),
        Ty::Arr(i, d) => format!("m{l}_{i}_{d}"),
    }
}

impl Sh {
    pub fn ty(&self) -> Ty {
        match self {
            Sh::Sym(_, t) => *t,
            Sh::Lit(w, _) => Ty::BV(*w),
            Sh::Op(op, p, k) => {
                let kt: Vec<Ty> = k.iter().map(|c| c.ty()).collect();
                let n = crate::refsmt::Node { op: *op, params: *p, kids: vec![], stored_width: None };
                crate::refsmt::node_type(&n, &kt).unwrap_or_else(|e| panic!("generator produced ill-typed shape {self:?}: {e:?}"))
            }
        }
    }
    pub fn depth(&self) -> usize {
        match self {
            Sh::Op(_, _, k) => 1 + k.iter().map(|c| c.depth()).max().unwrap_or(0),
            _ => 0,
        }
    }
    pub fn size(&self) -> usize {
        match self {
            Sh::Op(_, _, k) => 1 + k.iter().map(|c| c.size()).sum::<usize>(),
            _ => 1,
        }
    }
    pub fn root_op(&self) -> Option<Op> {
        match self {
            Sh::Op(op, ..) => Some(*op),
            _ => None,
        }
    }
    pub fn show(&self) -> String {
        match self {
            Sh::Sym(i, t) => sym_name(*i, *t),
            Sh::Lit(w, v) => format!("{w}'x{v:x}"),
            Sh::Op(op, p, k) => {
                let args: Vec<String> = k.iter().map(|c| c.show()).collect();
                match op {
                    Op::ZeroExt | Op::SignExt => format!("{}({}, {})", op.name(), args[0], p[0]),
                    Op::Slice => format!("{}[{}:{}]", args[0], p[0], p[1]),
                    Op::ArrayConst => format!("aconst<{}>({})", p[0], args[0]),
                    _ => format!("{}({})", op.name(), args.join(", ")),
                }
            }
        }
    }
    pub fn build(&self, ctx: &mut Context) -> ExprRef {
        match self {
            Sh::Sym(i, t) => match t {
                Ty::BV(w) => ctx.bv_symbol(&sym_name(*i, *t), *w),
                Ty::Arr(iw, dw) => ctx.array_symbol(&sym_name(*i, *t), *iw, *dw),
            },
            Sh::Lit(w, v) => lit(ctx, *w, v),
            Sh::Op(op, p, k) => {
                let a: Vec<ExprRef> = k.iter().map(|c| c.build(ctx)).collect();
                build_op(ctx, *op, *p, &a)
            }
        }
    }
    /// like `build`, with caller-chosen symbol names
    pub fn build_with(&self, ctx: &mut Context, namer: &dyn Fn(u8, Ty) -> String) -> ExprRef {
        match self {
            Sh::Sym(i, t) => match t {
                Ty::BV(w) => ctx.bv_symbol(&namer(*i, *t), *w),
                Ty::Arr(iw, dw) => ctx.array_symbol(&namer(*i, *t), *iw, *dw),
            },
            Sh::Lit(w, v) => lit(ctx, *w, v),
            Sh::Op(op, p, k) => {
                let a: Vec<ExprRef> = k.iter().map(|c| c.build_with(ctx, namer)).collect();
                build_op(ctx, *op, *p, &a)
            }
        }
    }
    pub fn symbols(&self, out: &mut Vec<(u8, Ty)>) {
        match self {
            Sh::Sym(i, t) => {
                if !out.contains(&(*i, *t)) {
                    out.push((*i, *t))
                }
            }
            Sh::Lit(..) => {}
            Sh::Op(_, _, k) => k.iter().for_each(|c| c.symbols(out)),
        }
    }
    pub fn ops(&self, out: &mut Vec<Op>) {
        if let Sh::Op(op, _, k) = self {
            out.push(*op);
            k.iter().for_each(|c| c.ops(out));
        }
    }
    pub fn to_json(&self) -> serde_json::Value {
        match self {
            Sh::Sym(i, Ty::BV(w)) => serde_json::json!({"sym": i, "w": w}),
            Sh::Sym(i, Ty::Arr(a, b)) => serde_json::json!({"sym": i, "iw": a, "dw": b}),
            Sh::Lit(w, v) => serde_json::json!({"lit": v.to_str_radix(16), "w": w}),
            Sh::Op(op, p, k) => {
                serde_json::json!({"op": op.name(), "p": p, "k": k.iter().map(|c| c.to_json()).collect::<Vec<_>>()})
            }
        }
    }
    pub fn from_json(v: &serde_json::Value) -> Option<Sh> {
        if let Some(i) = v.get("sym") {
            let i = i.as_u64()? as u8;
            if let Some(w) = v.get("w") {
                return Some(Sh::Sym(i, Ty::BV(w.as_u64()? as u32)));
            }
            return Some(Sh::Sym(i, Ty::Arr(v.get("iw")?.as_u64()? as u32, v.get("dw")?.as_u64()? as u32)));
        }
        if let Some(l) = v.get("lit") {
            return Some(Sh::Lit(v.get("w")?.as_u64()? as u32, BigUint::parse_bytes(l.as_str()?.as_bytes(), 16)?));
        }
        let name = v.get("op")?.as_str()?;
        let op = *Op::ALL.iter().find(|o| o.name() == name)?;
        let p = v.get("p")?.as_array()?;
        let p = [p[0].as_u64()? as u32, p[1].as_u64()? as u32];
        let k: Option<Vec<Sh>> = v.get("k")?.as_array()?.iter().map(Sh::from_json).collect();
        Some(Sh::Op(op, p, k?))
    }
}

pub fn lit(ctx: &mut Context, w: u32, v: &BigUint) -> ExprRef {
    let s = v.to_str_radix(2);
    assert!(s.len() as u32 <= w, "literal does not fit");
    let padded = format!("{}{}", "0".repeat(w as usize - s.len()), s);
    let bv = baa::BitVecValue::from_bit_str(&padded).expect("bit string");
    ctx.bv_lit(&bv)
}

pub fn build_op(ctx: &mut Context, op: Op, p: [u32; 2], a: &[ExprRef]) -> ExprRef {
    match op {
        Op::BVSymbol | Op::BVLiteral | Op::ArraySymbol => unreachable!(),
        Op::ZeroExt => ctx.zero_extend(a[0], p[0]),
        Op::SignExt => ctx.sign_extend(a[0], p[0]),
        Op::Slice => ctx.slice(a[0], p[0], p[1]),
        Op::Not => ctx.not(a[0]),
        Op::Neg => ctx.negate(a[0]),
        Op::Equal | Op::ArrayEqual => ctx.equal(a[0], a[1]),
        Op::Implies => ctx.implies(a[0], a[1]),
        Op::Ugt => ctx.greater(a[0], a[1]),
        Op::Sgt => ctx.greater_signed(a[0], a[1]),
        Op::Uge => ctx.greater_or_equal(a[0], a[1]),
        Op::Sge => ctx.greater_or_equal_signed(a[0], a[1]),
        Op::Concat => ctx.concat(a[0], a[1]),
        Op::And => ctx.and(a[0], a[1]),
        Op::Or => ctx.or(a[0], a[1]),
        Op::Xor => ctx.xor(a[0], a[1]),
        Op::Shl => ctx.shift_left(a[0], a[1]),
        Op::Ashr => ctx.arithmetic_shift_right(a[0], a[1]),
        Op::Lshr => ctx.shift_right(a[0], a[1]),
        Op::Add => ctx.add(a[0], a[1]),
        Op::Mul => ctx.mul(a[0], a[1]),
        Op::Sdiv => ctx.signed_div(a[0], a[1]),
        Op::Udiv => ctx.div(a[0], a[1]),
        Op::Smod => ctx.signed_mod(a[0], a[1]),
        Op::Srem => ctx.signed_remainder(a[0], a[1]),
        Op::Urem => ctx.remainder(a[0], a[1]),
        Op::Sub => ctx.sub(a[0], a[1]),
        Op::ArrayRead => ctx.array_read(a[0], a[1]),
        Op::Ite | Op::ArrayIte => ctx.ite(a[0], a[1], a[2]),
        Op::ArrayConst => ctx.array_const(a[0], p[0]),
        Op::ArrayStore => ctx.array_store(a[0], a[1], a[2]),
    }
}


/// Build `op` through the `Builder` closure API (`ctx.build(|b| b.op(..))`) instead of the Context methods.
pub fn build_op_via_builder(ctx: &mut Context, op: Op, p: [u32; 2], a: &[ExprRef]) -> ExprRef {
    ctx.build(|b| match op {
        Op::BVSymbol | Op::BVLiteral | Op::ArraySymbol => unreachable!(),
        Op::ZeroExt => b.zero_extend(a[0], p[0]),
        Op::SignExt => b.sign_extend(a[0], p[0]),
        Op::Slice => b.slice(a[0], p[0], p[1]),
        Op::Not => b.not(a[0]),
        Op::Neg => b.negate(a[0]),
        Op::Equal | Op::ArrayEqual => b.equal(a[0], a[1]),
        Op::Implies => b.implies(a[0], a[1]),
        Op::Ugt => b.greater(a[0], a[1]),
        Op::Sgt => b.greater_signed(a[0], a[1]),
        Op::Uge => b.greater_or_equal(a[0], a[1]),
        Op::Sge => b.greater_or_equal_signed(a[0], a[1]),
        Op::Concat => b.concat(a[0], a[1]),
        Op::And => b.and(a[0], a[1]),
        Op::Or => b.or(a[0], a[1]),
        Op::Xor => b.xor(a[0], a[1]),
        Op::Shl => b.shift_left(a[0], a[1]),
        Op::Ashr => b.arithmetic_shift_right(a[0], a[1]),
        Op::Lshr => b.shift_right(a[0], a[1]),
        Op::Add => b.add(a[0], a[1]),
        Op::Mul => b.mul(a[0], a[1]),
        Op::Sdiv => b.signed_div(a[0], a[1]),
        Op::Udiv => b.div(a[0], a[1]),
        Op::Smod => b.signed_mod(a[0], a[1]),
        Op::Srem => b.signed_remainder(a[0], a[1]),
        Op::Urem => b.remainder(a[0], a[1]),
        Op::Sub => b.sub(a[0], a[1]),
        Op::ArrayRead => b.array_read(a[0], a[1]),
        Op::Ite | Op::ArrayIte => b.ite(a[0], a[1], a[2]),
        Op::ArrayConst => b.array_const(a[0], p[0]),
        Op::ArrayStore => b.array_store(a[0], a[1], a[2]),
    })
}

impl Sh {
    /// like `build`, operators through the `Builder` closure API
    pub fn build_via_builder(&self, ctx: &mut Context) -> ExprRef {
        match self {
            Sh::Sym(..) | Sh::Lit(..) => self.build(ctx),
            Sh::Op(op, p, k) => {
                let a: Vec<ExprRef> = k.iter().map(|c| c.build_via_builder(ctx)).collect();
                build_op_via_builder(ctx, *op, *p, &a)
            }
        }
    }

    /// SMT-LIB text of the shape's *intended* meaning (all-BitVec sorts of RefSmt), produced from the shape
    /// alone - no patronus node is involved. `sym` gives the SMT name of a symbol.
    pub fn smt_text(&self, sym: &dyn Fn(u8, Ty) -> String) -> (String, Ty) {
        match self {
            Sh::Sym(i, t) => (sym(*i, *t), *t),
            Sh::Lit(w, v) => {
                let s = v.to_str_radix(2);
                (format!("#b{}{}", "0".repeat(*w as usize - s.len()), s), Ty::BV(*w))
            }
            Sh::Op(op, p, k) => {
                let kt: Vec<(String, Ty)> = k.iter().map(|c| c.smt_text(sym)).collect();
                let n = crate::refsmt::Node { op: *op, params: *p, kids: vec![], stored_width: None };
                let ty = self.ty();
                (crate::refsmt::node_smt(&n, &kt, ty, None), ty)
            }
        }
    }
}

impl Sh {
    /// value of the shape's intended meaning under `env` (symbol -> value), by the harness' own evaluator
    pub fn eval_ref(&self, env: &dyn Fn(u8, Ty) -> crate::bigeval::Val) -> crate::bigeval::Val {
        match self {
            Sh::Sym(i, t) => env(*i, *t),
            Sh::Lit(w, v) => crate::bigeval::Val::BV(v.clone(), *w),
            Sh::Op(op, p, k) => {
                let kv: Vec<crate::bigeval::Val> = k.iter().map(|c| c.eval_ref(env)).collect();
                crate::bigeval::eval_op(*op, *p, &kv)
            }
        }
    }
}

// ---------------------------------------------------------------------------------------------
// literal classes

pub fn pow2(k: u32) -> BigUint {
    BigUint::one() << k
}

/// The literal classes of DESIGN.md 3.3 for width `w` (deduplicated). At w ≤ 3 all values.
pub fn literal_classes(w: u32) -> Vec<BigUint> {
    let mut v: Vec<BigUint> = vec![];
    if w <= 3 {
        for i in 0..(1u32 << w) {
            v.push(i.into());
        }
        return v;
    }
    let ones = pow2(w) - 1u32;
    let mut push = |x: BigUint| {
        if x <= ones && !v.contains(&x) {
            v.push(x)
        }
    };
    push(BigUint::zero());
    push(BigUint::one());
    push(ones.clone());
    push(pow2(w - 1));
    push(pow2(w - 1) - 1u32);
    push(BigUint::from(2u32)); // one-hot low
    push(pow2(w / 2)); // one-hot mid
    push(pow2(w / 2) - 1u32); // low mask
    push(&ones ^ (pow2(w / 2) - 1u32)); // high mask
    // two-interval mask: bits [1..w/4] and [w/2 .. 3w/4]
    let q = (w / 4).max(1);
    push(((pow2(q) - 1u32) << 1) | ((pow2(q) - 1u32) << (w / 2)));
    // alternating bits
    let mut alt = BigUint::zero();
    let mut i = 0;
    while i < w {
        alt |= pow2(i);
        i += 2;
    }
    push(alt);
    // shift-amount classes
    push(BigUint::from(w - 1));
    push(BigUint::from(w));
    push(BigUint::from(w + 1));
    push(pow2(32));
    push(pow2(32) + 1u32);
    push(pow2(64));
    // 3 (not a power of two, not a mask at larger widths)
    push(BigUint::from(5u32));
    v
}

/// a reduced set used in non-focus positions
pub fn literal_classes_reduced(w: u32) -> Vec<BigUint> {
    if w == 1 {
        return vec![BigUint::zero(), BigUint::one()];
    }
    let ones = pow2(w) - 1u32;
    let mut v = vec![BigUint::zero(), ones.clone()];
    let m = &ones ^ (pow2(w / 2) - 1u32);
    if !v.contains(&m) {
        v.push(m);
    }
    if w > 2 {
        let x = BigUint::from(w.min(3));
        if !v.contains(&x) {
            v.push(x);
        }
    }
    v
}

// ---------------------------------------------------------------------------------------------
// operator signatures

pub const BIN_SAME: [Op; 14] = [
    Op::And,
    Op::Or,
    Op::Xor,
    Op::Shl,
    Op::Ashr,
    Op::Lshr,
    Op::Add,
    Op::Mul,
    Op::Sdiv,
    Op::Udiv,
    Op::Smod,
    Op::Srem,
    Op::Urem,
    Op::Sub,
];
pub const CMP: [Op; 5] = [Op::Equal, Op::Ugt, Op::Sgt, Op::Uge, Op::Sge];

/// One way of producing a value of some type with operator `op`: parameters and child types.
#[derive(Clone, Debug)]
pub struct Sig {
    pub op: Op,
    pub params: [u32; 2],
    pub kids: Vec<Ty>,
}

/// Array index widths used by the generator (≤ 3 so that models can be read cell by cell)
pub const ARR_IW: [u32; 3] = [1, 2, 3];

/// All signatures (bounded parameter choices) producing type `t`. `cw` is the operand width used
/// for comparison operators when `t` is 1 bit wide; `div` includes division/remainder.
pub fn signatures(t: Ty, cw: u32, div: bool) -> Vec<Sig> {
    let mut s = vec![];
    let mut add = |op, params, kids: Vec<Ty>| s.push(Sig { op, params, kids });
    match t {
        Ty::BV(w) => {
            add(Op::Not, [0, 0], vec![Ty::BV(w)]);
            add(Op::Neg, [0, 0], vec![Ty::BV(w)]);
            if w >= 2 {
                let mut bys = vec![1, w / 2, w - 1];
                bys.dedup();
                for by in bys {
                    if by >= 1 && by < w {
                        add(Op::ZeroExt, [by, 0], vec![Ty::BV(w - by)]);
                        add(Op::SignExt, [by, 0], vec![Ty::BV(w - by)]);
                    }
                }
                let mut splits = vec![1, w / 2, w - 1];
                splits.dedup();
                for a in splits {
                    if a >= 1 && a < w {
                        add(Op::Concat, [0, 0], vec![Ty::BV(a), Ty::BV(w - a)]);
                    }
                }
            }
            // slices out of a wider value
            for (cw2, lo) in [(w + 1, 0), (w + 1, 1), (w + 3, 1), (2 * w, w), (2 * w + 1, w / 2 + 1)] {
                if cw2 <= 260 && lo + w <= cw2 {
                    add(Op::Slice, [lo + w - 1, lo], vec![Ty::BV(cw2)]);
                }
            }
            for op in BIN_SAME {
                let is_div = matches!(op, Op::Sdiv | Op::Udiv | Op::Smod | Op::Srem | Op::Urem);
                if !is_div || div {
                    add(op, [0, 0], vec![Ty::BV(w), Ty::BV(w)]);
                }
            }
            add(Op::Ite, [0, 0], vec![Ty::BV(1), Ty::BV(w), Ty::BV(w)]);
            for iw in ARR_IW {
                add(Op::ArrayRead, [0, 0], vec![Ty::Arr(iw, w), Ty::BV(iw)]);
            }
            if w == 1 {
                for op in CMP {
                    add(op, [0, 0], vec![Ty::BV(cw), Ty::BV(cw)]);
                }
                add(Op::Implies, [0, 0], vec![Ty::BV(1), Ty::BV(1)]);
                add(Op::ArrayEqual, [0, 0], vec![Ty::Arr(2, cw.min(8)), Ty::Arr(2, cw.min(8))]);
                if cw == 1 {
                    add(Op::ArrayEqual, [0, 0], vec![Ty::Arr(1, 1), Ty::Arr(1, 1)]);
                    add(Op::ArrayEqual, [0, 0], vec![Ty::Arr(1, 2), Ty::Arr(1, 2)]);
                }
            }
        }
        Ty::Arr(i, d) => {
            add(Op::ArrayConst, [i, d], vec![Ty::BV(d)]);
            add(Op::ArrayStore, [0, 0], vec![Ty::Arr(i, d), Ty::BV(i), Ty::BV(d)]);
            add(Op::ArrayIte, [0, 0], vec![Ty::BV(1), Ty::Arr(i, d), Ty::Arr(i, d)]);
        }
    }
    s
}

#[derive(Clone, Copy, PartialEq, Eq)]
pub enum LeafMode {
    /// symbols a, b and all literal classes
    Full,
    /// symbols a, b and the reduced literal set
    Reduced,
    /// symbols a, b and a single non-trivial literal
    Minimal,
    /// symbols only
    SymsOnly,
}

pub fn leaves(t: Ty, mode: LeafMode) -> Vec<Sh> {
    let mut v = vec![Sh::Sym(0, t), Sh::Sym(1, t)];
    if let Ty::BV(w) = t {
        match mode {
            LeafMode::Full => v.extend(literal_classes(w).into_iter().map(|x| Sh::Lit(w, x))),
            LeafMode::Reduced => v.extend(literal_classes_reduced(w).into_iter().map(|x| Sh::Lit(w, x))),
            LeafMode::Minimal => {
                let r = literal_classes_reduced(w);
                v.push(Sh::Lit(w, r[r.len() - 1].clone()));
            }
            LeafMode::SymsOnly => {}
        }
    }
    v
}

fn cartesian(choices: &[Vec<Sh>]) -> Vec<Vec<Sh>> {
    let mut out: Vec<Vec<Sh>> = vec![vec![]];
    for c in choices {
        let mut next = Vec::with_capacity(out.len() * c.len());
        for prefix in out.iter() {
            for x in c {
                let mut p = prefix.clone();
                p.push(x.clone());
                next.push(p);
            }
        }
        out = next;
    }
    out
}

/// All depth-1 shapes of signature `sig` with leaves drawn per `mode`. For binary operators with
/// `Full` leaves the literal×literal block uses the reduced set on one side to stay bounded.
pub fn depth1(sig: &Sig, mode: LeafMode) -> Vec<Sh> {
    let mut out = vec![];
    if mode == LeafMode::Full && sig.kids.len() >= 2 {
        // position-wise: one position Full, the others Reduced
        for focus in 0..sig.kids.len() {
            let choices: Vec<Vec<Sh>> = sig
                .kids
                .iter()
                .enumerate()
                .map(|(i, t)| leaves(*t, if i == focus { LeafMode::Full } else { LeafMode::Reduced }))
                .collect();
            for k in cartesian(&choices) {
                let s = Sh::Op(sig.op, sig.params, k);
                if !out.contains(&s) {
                    out.push(s);
                }
            }
        }
    } else {
        let choices: Vec<Vec<Sh>> = sig.kids.iter().map(|t| leaves(*t, mode)).collect();
        for k in cartesian(&choices) {
            out.push(Sh::Op(sig.op, sig.params, k));
        }
    }
    out
}

/// Depth-2 shapes: root signature × one focus position holding a depth-1 shape (every operator
/// that can produce that type, `Minimal` leaves), the other positions `Reduced` leaves.
pub fn depth2(root: &Sig, cw: u32, div: bool) -> Vec<Sh> {
    depth2_with(root, cw, div, LeafMode::Reduced)
}

pub fn depth2_with(root: &Sig, cw: u32, div: bool, other: LeafMode) -> Vec<Sh> {
    let mut out = vec![];
    for focus in 0..root.kids.len() {
        let mut inner: Vec<Sh> = vec![];
        for sig in signatures(root.kids[focus], cw, div) {
            inner.extend(depth1(&sig, LeafMode::Minimal));
        }
        let choices: Vec<Vec<Sh>> = root
            .kids
            .iter()
            .enumerate()
            .map(|(i, t)| if i == focus { inner.clone() } else { leaves(*t, other) })
            .collect();
        for k in cartesian(&choices) {
            out.push(Sh::Op(root.op, root.params, k));
        }
    }
    out
}

/// Depth-2 *pair* shapes: the root has structured operands in two positions at once (every operator
/// that can produce the operand type in either position), e.g. `and(not(a), not(b))`,
/// `concat(slice(a), slice(a))`, `equal(concat(..), concat(..))`. Leaves are symbols only; the second
/// operand is built twice: over the same symbols in the same order and over the swapped symbols, so
/// rules that test two operands for a common sub-term meet both the matching and the near-miss case.
pub fn depth2_pairs(root: &Sig, cw: u32, div: bool) -> Vec<Sh> {
    let mut out = vec![];
    let n = root.kids.len();
    let inner = |t: Ty, swapped: bool| -> Vec<Sh> {
        let mut v = vec![];
        for sig in signatures(t, cw, div) {
            let mut cnt = 0u8;
            let kids: Vec<Sh> = sig
                .kids
                .iter()
                .map(|kt| {
                    let idx = if swapped { 1 - (cnt % 2) } else { cnt % 2 };
                    cnt += 1;
                    Sh::Sym(idx, *kt)
                })
                .collect();
            v.push(Sh::Op(sig.op, sig.params, kids));
        }
        v
    };
    for p in 0..n {
        for q in (p + 1)..n {
            let ip = inner(root.kids[p], false);
            let iq_same = inner(root.kids[q], false);
            let iq_swap = inner(root.kids[q], true);
            for x in ip.iter() {
                for (y1, y2) in iq_same.iter().zip(iq_swap.iter()) {
                    for y in [y1, y2] {
                        let kids: Vec<Sh> = (0..n)
                            .map(|i| if i == p { x.clone() } else if i == q { y.clone() } else { Sh::Sym(0, root.kids[i]) })
                            .collect();
                        let s = Sh::Op(root.op, root.params, kids);
                        if y as *const Sh == y2 as *const Sh && y1 == y2 {
                            continue;
                        }
                        out.push(s);
                    }
                }
            }
        }
    }
    out
}

/// Slices of one source put back together by concat: adjacent (the mergeable case), with a gap, overlapping,
/// from two different sources, in the wrong order, and three-way; plus slices of such concats.
pub fn slice_concat_family(w: u32) -> Vec<Sh> {
    let mut out = vec![];
    if w < 4 {
        return out;
    }
    let x = Sh::Sym(0, Ty::BV(w));
    let y = Sh::Sym(1, Ty::BV(w));
    let sl = |e: &Sh, hi: u32, lo: u32| Sh::Op(Op::Slice, [hi, lo], vec![e.clone()]);
    let cc = |a: Sh, b: Sh| Sh::Op(Op::Concat, [0, 0], vec![a, b]);
    let mut cuts = vec![1, w / 2, w - 2];
    cuts.dedup();
    for m in cuts {
        // x[hi:m] ++ x[m-1:lo] for the outer bounds full and partial
        for (hi, lo) in [(w - 1, 0), (w - 2, 0), (w - 1, 1)] {
            if m > lo && m <= hi {
                out.push(cc(sl(&x, hi, m), sl(&x, m - 1, lo))); // adjacent
                out.push(cc(sl(&x, hi, m), sl(&y, m - 1, lo))); // other source
                out.push(cc(sl(&x, m - 1, lo), sl(&x, hi, m))); // wrong order
                if m + 1 <= hi {
                    out.push(cc(sl(&x, hi, m + 1), sl(&x, m - 1, lo))); // gap
                }
                if m - 1 > lo {
                    out.push(cc(sl(&x, hi, m - 1), sl(&x, m - 1, lo))); // overlap by one
                }
                out.push(cc(sl(&x, hi, m), sl(&x, m, lo))); // overlap at m
            }
        }
    }
    if w >= 6 {
        let a = w / 3;
        let b = 2 * w / 3;
        out.push(cc(sl(&x, w - 1, b), cc(sl(&x, b - 1, a), sl(&x, a - 1, 0))));
        out.push(cc(cc(sl(&x, w - 1, b), sl(&x, b - 1, a)), sl(&x, a - 1, 0)));
        out.push(cc(sl(&x, w - 1, b), cc(sl(&y, b - 1, a), sl(&x, a - 1, 0))));
        // slices of a concat that straddle / touch the seam
        let c = cc(sl(&x, w - 1, a), sl(&y, a - 1, 0));
        for (hi, lo) in [(a, a - 1), (a - 1, 0), (w - 1, a), (a, 0), (w - 2, 1), (a - 1, a - 1), (a, a)] {
            out.push(sl(&c, hi, lo));
        }
    }
    out
}

// ---------------------------------------------------------------------------------------------
// seeded deeper DAGs

pub struct RandCfg {
    pub max_depth: usize,
    pub div: bool,
    pub widths: Vec<u32>,
}

pub fn random_lit(rng: &mut Rng, w: u32) -> BigUint {
    if rng.chance(3, 4) {
        let c = literal_classes(w);
        c[rng.below(c.len())].clone()
    } else {
        let mut v = BigUint::zero();
        let mut i = 0;
        while i < w {
            v |= BigUint::from(rng.next()) << i;
            i += 64;
        }
        v & (pow2(w) - 1u32)
    }
}

pub fn random_shape(rng: &mut Rng, t: Ty, depth: usize, cfg: &RandCfg, pool: &mut Vec<Sh>) -> Sh {
    // DAG sharing: reuse an earlier sub-shape of the same type
    if !pool.is_empty() && rng.chance(1, 5) {
        let cands: Vec<&Sh> = pool.iter().filter(|s| s.ty() == t && s.depth() <= depth).collect();
        if !cands.is_empty() {
            return cands[rng.below(cands.len())].clone();
        }
    }
    if depth == 0 || rng.chance(1, 6) {
        return match t {
            Ty::BV(w) => {
                if rng.chance(2, 5) {
                    Sh::Lit(w, random_lit(rng, w))
                } else {
                    Sh::Sym(rng.below(3) as u8, t)
                }
            }
            Ty::Arr(..) => Sh::Sym(rng.below(2) as u8, t),
        };
    }
    let cw = *rng.pick(&cfg.widths);
    let sigs = signatures(t, cw, cfg.div);
    let sig = &sigs[rng.below(sigs.len())];
    let kids: Vec<Sh> = sig.kids.iter().map(|kt| random_shape(rng, *kt, depth - 1, cfg, pool)).collect();
    let s = Sh::Op(sig.op, sig.params, kids);
    if pool.len() < 64 {
        pool.push(s.clone());
    }
    s
}
