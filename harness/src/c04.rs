//! C04 — the unrolled SMT encoding is well-formed and faithful to the system.
//! Real code: UnrollSmtEncoding::{new, init_at, unroll, get_signal_at}, analyze_for_serialization,
//! serialize_cmd. The recorded script S is (1) parsed by both solvers' front ends and (2) proved
//! to agree with an independent reference unrolling on every signal at every step, for all
//! executions.

use crate::c05::to_ref_pub as to_ref;
use crate::recorder::Recorder;
use crate::refsmt::{RefEnc, Ty};
use crate::refunroll::RefUnroll;
use crate::report::{Report, Role, Tier};
use crate::solver::{Answer, Proc, Which};
use crate::sysgen::{self, GenCfg, SysSpec};
use patronus::expr::{Context, ExprRef};
use patronus::mc::{TransitionSystemEncoding, UnrollSmtEncoding};
use patronus::smt::SmtCommand;
use patronus::system::TransitionSystem;
use rayon::prelude::*;
use serde_json::json;
use std::collections::HashSet;

pub const SITE: &str = "mc::UnrollSmtEncoding (init_at / unroll / get_signal_at)";

pub fn gen_cfg() -> GenCfg {
    GenCfg { max_states: 3, max_inputs: 2, max_width: 4, arrays: true, max_depth: 2, div: true, max_state_bits: 12, total: false }
}

pub fn spec_for(seed: u64, index: u64) -> SysSpec {
    sysgen::generate(seed, "C04", index, &gen_cfg())
}

fn quoted(ctx: &Context, sym: ExprRef) -> String {
    format!("|{}|", ctx.get_symbol_name(sym).unwrap_or("?"))
}

/// which sharing pattern does the system have (role key of C04 findings)
pub fn sharing_class(ctx: &Context, sys: &TransitionSystem) -> Vec<&'static str> {
    use crate::refsmt::{Op, decompose};
    let reach = |roots: Vec<ExprRef>| -> HashSet<ExprRef> {
        let mut seen = HashSet::new();
        let mut st = roots;
        while let Some(e) = st.pop() {
            if seen.insert(e) {
                st.extend(decompose(&ctx[e]).kids);
            }
        }
        seen
    };
    let is_op = |e: &ExprRef| !matches!(decompose(&ctx[*e]).op, Op::BVSymbol | Op::ArraySymbol | Op::BVLiteral);
    let init = reach(sys.states.iter().filter_map(|s| s.init).collect());
    let next = reach(sys.states.iter().filter_map(|s| s.next).collect());
    let other = reach(sys.bad_states.iter().chain(sys.constraints.iter()).copied().collect());
    let state_syms: HashSet<ExprRef> = sys.states.iter().map(|s| s.symbol).collect();
    let mut out = vec![];
    if init.iter().any(|e| is_op(e) && next.contains(e)) {
        out.push("signal in init and next");
    }
    if init.iter().any(|e| is_op(e) && other.contains(e)) {
        out.push("signal in init and bad/constraint");
    }
    if init.iter().any(|e| state_syms.contains(e)) {
        out.push("init reads a state");
    }
    if out.is_empty() {
        out.push("no init sharing");
    }
    out
}

pub struct Recorded {
    pub script: String,
    pub cmds: Vec<SmtCommand>,
    pub enc: UnrollSmtEncoding,
    pub first: u64,
    pub last: u64,
}

/// drive the real encoder the way bmc (entry 0) or pdr (entry 1) does
pub fn record(ctx: &mut Context, sys: &TransitionSystem, entry: u64, depth: u64) -> Result<Recorded, (String, String)> {
    record_after(ctx, sys, entry, depth, None)
}

/// `prior`: the same encoder object has already been used for another session (`init_at(prior.0)` followed by
/// `prior.1` unrolls, against a solver that has since been restarted) - `init_at` documents that it deletes the
/// old mutable state, so the recorded script must not depend on that history.
pub fn record_after(ctx: &mut Context, sys: &TransitionSystem, entry: u64, depth: u64, prior: Option<(u64, u64)>) -> Result<Recorded, (String, String)> {
    crate::panics::guarded(|| {
        let mut rec = Recorder::new();
        let mut enc = UnrollSmtEncoding::new(ctx, sys, false);
        if let Some((e0, d0)) = prior {
            let mut scratch = Recorder::new();
            enc.define_header(&mut scratch).expect("recorder never fails");
            enc.init_at(ctx, &mut scratch, e0).expect("recorder never fails");
            for _ in 0..d0 {
                enc.unroll(ctx, &mut scratch).expect("recorder never fails");
            }
        }
        enc.define_header(&mut rec).expect("recorder never fails");
        enc.init_at(ctx, &mut rec, entry).expect("recorder never fails");
        for _ in 0..depth {
            enc.unroll(ctx, &mut rec).expect("recorder never fails");
        }
        Recorded { script: rec.text, cmds: rec.cmds, enc, first: entry, last: entry + depth }
    })
}

fn check_one(rep: &mut Report, spec: &SysSpec, index: u64, entry: u64, depth: u64, z3: &mut Proc, cvc5: &mut Proc, z3old: &mut Option<Proc>) {
    let mut ctx = Context::default();
    let sys = spec.build(&mut ctx);
    let replay = json!({"index": index, "entry": entry, "depth": depth, "text": spec.show()});
    let label = format!("system #{index} ({}) entry step {entry} depth {depth}", spec.pattern);
    let sample = if index % 173 == 0 && entry == 0 { Some(spec.show()) } else { None };
    check_system(rep, ctx, &sys, &label, replay, entry, depth, z3, cvc5, z3old, false, sample);
}

/// `soft`: undecided faithfulness queries are listed, not counted (shipped designs)
#[allow(clippy::too_many_arguments)]
fn check_system(rep: &mut Report, mut ctx: Context, sys: &TransitionSystem, label: &str, replay: serde_json::Value, entry: u64, depth: u64, z3: &mut Proc, cvc5: &mut Proc, z3old: &mut Option<Proc>, soft: bool, sample: Option<String>) {
    crate::panics::set_context(format!("system {label}"));
    rep.count("programs", 1);
    let sys = sys.clone();
    let share = sharing_class(&ctx, &sys).join(" + ");
    // every fourth instance: the encoder object has a history (re-initialised after an earlier session at
    // another entry step)
    let prior = replay.get("index").and_then(|i| i.as_u64()).filter(|i| i % 4 == 2).map(|i| (if entry == 0 { 1 + i % 3 } else { (i / 4) % 2 * (entry + 2) }, 1 + (i / 4) % 3));
    let label_owned = match prior {
        Some((e0, d0)) => format!("{label} [encoder object re-used after init_at({e0}) + {d0} unroll(s)]"),
        None => label.to_string(),
    };
    let label = label_owned.as_str();
    let r = match record_after(&mut ctx, &sys, entry, depth, prior) {
        Ok(r) => r,
        Err((loc, msg)) => {
            rep.count("obligations", 1);
            rep.violation(Role::new(SITE, &format!("entry={entry}"), &format!("panic@{loc};{share}")), format!("{label}: the encoder panicked: {msg}"), json!({"system": replay}));
            return;
        }
    };
    // ---- well-formedness: both front ends
    rep.count("obligations", 1);
    let mut wf_errors = vec![];
    let mut solvers: Vec<&mut Proc> = vec![z3, cvc5];
    if let Some(o) = z3old.as_mut() {
        solvers.push(o);
    }
    for p in solvers.iter_mut() {
        // cvc5 only accepts values under `as const`; the encoder emits init expressions verbatim
        if p.which == Which::Cvc5 && r.script.contains("as const") {
            continue;
        }
        let a = p.check_once(&r.script);
        match a {
            Answer::Error(m) => wf_errors.push(format!("{}: {m}", p.which.name())),
            Answer::Sat => {}
            Answer::Unsat => wf_errors.push(format!("{}: the bare script is unsatisfiable (it must only declare and define)", p.which.name())),
            Answer::Unknown | Answer::Timeout => {}
        }
    }
    if !wf_errors.is_empty() {
        let kind = if wf_errors.iter().any(|e| e.contains("unknown constant") || e.contains("not declared") || e.contains("Symbol")) { "use-before-definition" } else if wf_errors.iter().any(|e| e.contains("already") || e.contains("redeclar") || e.contains("invalid declaration") || e.contains("overload")) { "double-definition" } else { "rejected" };
        rep.violation(
            Role::new(SITE, &format!("entry={entry}"), &format!("ill-formed:{kind};{share}")),
            format!("{label}: the script is rejected: {}", wf_errors.join(" | ")),
            json!({"system": replay, "script": r.script, "errors": wf_errors}),
        );
        return;
    }
    // no assertions may be part of the bare encoding
    if r.cmds.iter().any(|c| matches!(c, SmtCommand::Assert(_))) {
        rep.violation(Role::new(SITE, &format!("entry={entry}"), &format!("asserts-in-encoding;{share}")), format!("{label}: the encoder emitted assertions"), json!({"system": replay, "script": r.script}));
        return;
    }
    rep.count("discharged", 1);
    // ---- faithfulness
    rep.count("obligations", 1);
    let declared: HashSet<ExprRef> = r.cmds.iter().filter_map(|c| if let SmtCommand::DeclareConst(s) = c { Some(*s) } else { None }).collect();
    let defined: HashSet<ExprRef> = r.cmds.iter().filter_map(|c| if let SmtCommand::DefineConst(s, _) = c { Some(*s) } else { None }).collect();
    let mut ru = match RefUnroll::new(&ctx, &sys, "R!") {
        Ok(u) => u,
        Err(e) => {
            rep.undecided.push(format!("RefUnroll failed on generated system: {e:?}"));
            return;
        }
    };
    ru.apply_init = entry == 0;
    let mut reftext = String::new();
    for _ in r.first..=r.last {
        match ru.step() {
            Ok(t) => reftext.push_str(&t),
            Err(e) => {
                rep.undecided.push(format!("RefUnroll failed on generated system: {e:?}"));
                return;
            }
        }
    }
    let mut link = String::new();
    let mut diffs: Vec<String> = vec![];
    let mut freedom_problems = vec![];
    let sig = |ctx: &Context, e: ExprRef, k: u64| -> Result<(ExprRef, String, Ty), String> {
        let s = crate::panics::guarded(|| r.enc.get_signal_at(ctx, e, k)).map_err(|(l, m)| format!("get_signal_at panicked at {l}: {m}"))?;
        let t = RefEnc::type_of(ctx, s).map_err(|e| e.0)?;
        if ctx[s].is_symbol() {
            Ok((s, to_ref(&quoted(ctx, s), t), t))
        } else {
            // literal true/false
            Ok((s, if ctx[s].is_true() { "#b1".into() } else { "#b0".into() }, t))
        }
    };
    for k in r.first..=r.last {
        let rk = (k - r.first) as usize;
        for (j, inp) in sys.inputs.iter().enumerate() {
            match sig(&ctx, *inp, k) {
                Ok((s, term, _)) => {
                    if !declared.contains(&s) {
                        freedom_problems.push(format!("input {j} at step {k} is not a declared constant of the script"));
                    }
                    link.push_str(&format!("(assert (= {} {term}))\n", ru.inp(j, rk)));
                }
                Err(m) => freedom_problems.push(format!("input {j} at step {k}: {m}")),
            }
        }
        for (i, st) in sys.states.iter().enumerate() {
            let free = if rk == 0 { !(ru.apply_init && st.init.is_some()) } else { st.next.is_none() };
            match sig(&ctx, st.symbol, k) {
                Ok((s, term, _)) => {
                    if free {
                        if !declared.contains(&s) {
                            freedom_problems.push(format!("state {i} is free at step {k} but not a declared constant of the script"));
                        }
                        link.push_str(&format!("(assert (= {} {term}))\n", ru.st(i, rk)));
                    } else {
                        if !defined.contains(&s) && !(st.is_const() && (declared.contains(&s) || defined.contains(&s))) {
                            freedom_problems.push(format!("state {i} at step {k} is determined by the system but not defined in the script"));
                        }
                        diffs.push(format!("(distinct {} {term})", ru.st(i, rk)));
                    }
                }
                Err(m) => freedom_problems.push(format!("state {i} at step {k}: {m}")),
            }
        }
        let roots: Vec<(String, ExprRef, String)> = sys
            .constraints
            .iter()
            .enumerate()
            .map(|(i, c)| (format!("constraint {i}"), *c, ru.constraints[rk][i].clone()))
            .chain(sys.bad_states.iter().enumerate().map(|(i, b)| (format!("bad {i}"), *b, ru.bads[rk][i].clone())))
            .collect();
        for (what, e, refterm) in roots {
            match sig(&ctx, e, k) {
                Ok((s, term, _)) => {
                    if ctx[s].is_symbol() && !declared.contains(&s) && !defined.contains(&s) {
                        // pdr (entry 1) rebuilds bad/constraint terms from stepped symbols and does not use these
                        if entry == 0 {
                            freedom_problems.push(format!("{what} at step {k} is neither declared nor defined in the script"));
                        }
                        continue;
                    }
                    diffs.push(format!("(distinct {refterm} {term})"));
                }
                Err(m) => {
                    if entry == 0 {
                        freedom_problems.push(format!("{what} at step {k}: {m}"));
                    }
                }
            }
        }
    }
    if !freedom_problems.is_empty() {
        rep.violation(
            Role::new(SITE, &format!("entry={entry}"), &format!("signals-missing-or-not-free;{share}")),
            format!("{label}: {}", freedom_problems.join("; ")),
            json!({"system": replay, "script": r.script, "problems": freedom_problems}),
        );
        return;
    }
    let query = format!("{}{reftext}{link}(assert (or false {}))\n", r.script, diffs.join(" "));
    let mut a = z3.check_once(&query);
    if matches!(a, Answer::Unknown | Answer::Timeout) && !query.contains("as const") {
        a = cvc5.check_once(&query);
    }
    match a {
        Answer::Unsat => {
            rep.count("discharged", 1);
            if let Some(sm) = sample.as_ref() {
                rep.sample(json!({"system": sm, "entry": entry, "depth": depth, "script": r.script, "answer": "unsat"}), 6);
            }
        }
        Answer::Sat => {
            // which signals differ? ask the solver for each difference term
            z3.push();
            let _ = z3.check(&query);
            let vals = z3.get_values(&diffs).unwrap_or_default();
            z3.pop();
            let differing: Vec<&String> = diffs.iter().zip(vals.iter()).filter(|(_, v)| v.as_str() == "true").map(|(d, _)| d).collect();
            // replay: second solver must agree that the scripts differ
            let a2 = if query.contains("as const") { None } else { Some(cvc5.check_once(&query)) };
            rep.count("disagreements_checked", 1);
            rep.violation(
                Role::new(SITE, &format!("entry={entry}"), &format!("unfaithful;{share}")),
                format!("{label}: script symbols differ from the system's values in some execution: {}", differing.iter().take(4).map(|s| s.as_str()).collect::<Vec<_>>().join(", ")),
                json!({"system": replay, "script": r.script, "differing": differing, "second_solver": a2.map(|a| a.short().to_string()), "query": query}),
            );
        }
        Answer::Error(m) => rep.undecided.push(format!("ENCODING-ERROR: faithfulness query rejected ({m}) for {label}")),
        other => {
            if soft {
                rep.count("undecided_faithfulness_queries_listed_not_counted", 1);
                rep.uncount("obligations", 1);
                if rep.inconclusive.len() < 30 {
                    rep.inconclusive.push(json!({"system": label, "why": other.short()}));
                }
            } else {
                rep.inconc(json!({"system": label, "why": other.short()}))
            }
        }
    }
}

fn canaries(rep: &mut Report, seed: u64) {
    // a perturbed script (one step index shifted) must be noticed
    let mut z3 = Proc::new(Which::Z3New, 10_000);
    let mut total = 0;
    let mut ok = 0;
    for index in [11u64, 24, 37, 50] {
        let spec = spec_for(seed, index);
        let mut ctx = Context::default();
        let sys = spec.build(&mut ctx);
        if sys.states.iter().all(|s| s.next.is_none() || s.is_const()) {
            continue;
        }
        let Ok(r) = record(&mut ctx, &sys, 0, 2) else { continue };
        let Ok(mut ru) = RefUnroll::new(&ctx, &sys, "R!") else { continue };
        let mut reftext = String::new();
        for _ in 0..3 {
            reftext.push_str(&ru.step().unwrap_or_default());
        }
        // compare state i at script step 2 with the reference at step 1 (deliberately wrong), inputs unlinked
        let Some((i, st)) = sys.states.iter().enumerate().find(|(_, s)| s.next.is_some() && !s.is_const()) else { continue };
        let s = r.enc.get_signal_at(&ctx, st.symbol, 2);
        let t = RefEnc::type_of(&ctx, s).unwrap();
        let q = format!("{}{reftext}(assert (distinct {} {}))\n", r.script, ru.st(i, 1), to_ref(&quoted(&ctx, s), t));
        total += 1;
        if z3.check_once(&q) == Answer::Sat {
            ok += 1;
        }
    }
    rep.count("canaries", total);
    rep.count("canaries_sat", ok);
    if ok != total || total == 0 {
        rep.undecided.push(format!("canary failure: {ok}/{total}"));
    }
}

pub fn run(tier: Tier, seed: u64, replay: Option<serde_json::Value>) -> i32 {
    let mut rep = Report::new("C04", tier, seed, "translation_validation");
    let n = tier.pick(1200u64, 12000u64);
    let depths: Vec<u64> = tier.pick(vec![0, 1, 2, 4], vec![0, 1, 2, 3, 5, 8]);
    let mut jobs: Vec<(u64, u64, u64)> = vec![];
    for i in 0..n {
        // entry 0 at a depth chosen by index, entry 1 as pdr uses it (one unroll) and deeper
        jobs.push((i, 0, depths[(i as usize) % depths.len()]));
        jobs.push((i, 1, if i % 3 == 0 { 2 } else { 1 }));
    }
    if let Some(r) = &replay {
        rep.write_files = false;
        let s = &r["replay"]["system"];
        jobs = vec![(s["index"].as_u64().unwrap_or(0), s["entry"].as_u64().unwrap_or(0), s["depth"].as_u64().unwrap_or(1))];
    } else {
        canaries(&mut rep, seed);
    }
    let chunks: Vec<&[(u64, u64, u64)]> = jobs.chunks(60).collect();
    let parts: Vec<Report> = chunks
        .par_iter()
        .map(|chunk| {
            let mut r = Report::new("C04", tier, seed, "translation_validation");
            let mut z3 = Proc::new(Which::Z3New, 10_000);
            let mut cvc5 = Proc::new(Which::Cvc5, 10_000);
            let mut z3old = if tier == Tier::Thorough { Some(Proc::new(Which::Z3, 10_000)) } else { None };
            for (i, entry, depth) in chunk.iter() {
                let spec = spec_for(seed, *i);
                check_one(&mut r, &spec, *i, *entry, *depth, &mut z3, &mut cvc5, &mut z3old);
            }
            r.count("solver_time_ms", (z3.solver_time + cvc5.solver_time).as_millis() as u64);
            r.count("solver_queries", z3.queries + cvc5.queries);
            r
        })
        .collect();
    for p in parts {
        rep.merge(p);
    }
    // shipped designs: the real encoder on real designs (well-formedness on both front ends, faithfulness
    // where the solver decides it within the cap)
    if replay.is_none() {
        let files = crate::syscmp::shipped_files(tier == Tier::Thorough);
        let fparts: Vec<Report> = files
            .par_iter()
            .map(|f| {
                let mut r = Report::new("C04", tier, seed, "translation_validation");
                let mut z3 = Proc::new(Which::Z3New, 20_000);
                let mut cvc5 = Proc::new(Which::Cvc5, 20_000);
                let mut z3old = None;
                for (entry, depth) in [(0u64, 2u64), (1, 1)] {
                    let mut ctx = Context::default();
                    if let Ok(Some(sys)) = crate::panics::guarded(|| patronus::btor2::parse_file_with_ctx(f, &mut ctx)) {
                        if sys.bad_states.is_empty() && sys.constraints.is_empty() && sys.states.is_empty() {
                            continue;
                        }
                        let label = format!("{} entry step {entry} depth {depth}", f.strip_prefix(crate::report::repo_root()).unwrap_or(f).display());
                        r.count("shipped_design_runs", 1);
                        check_system(&mut r, ctx, &sys, &label, json!({"file": f.display().to_string(), "entry": entry, "depth": depth}), entry, depth, &mut z3, &mut cvc5, &mut z3old, true, None);
                    }
                }
                r
            })
            .collect();
        for p in fparts {
            rep.merge(p);
        }
    }
    rep.extra.insert("bounds".into(), json!({"generated_systems": n, "patterns": sysgen::PATTERNS, "depths_entry0": depths, "entry1": "init_at(1) + 1 or 2 unrolls (as pdr)",
        "states": "1..3 bit-vector states of 1..4 bits (+1 array bv2->bv3)", "inputs": "0..2"}));
    rep.extra.insert("functions_encoded".into(), json!(["UnrollSmtEncoding::new", "init_at", "unroll", "get_signal_at", "system::analysis::analyze_for_serialization", "smt::serialize_cmd"]));
    rep.extra.insert("outside_claim".into(), json!(["systems beyond the grammar's size", "unrolling depths beyond the listed ones", "the include_outputs=true mode of the encoder"]));
    rep.assumptions = vec![
        "RefUnroll states the btor2 semantics (init over step-0 values, next-less states free, inputs free)".into(),
        "the bare encoding contains only declarations and definitions, so every valuation of its declared constants extends to exactly one model (checked: no assert commands, bare script sat)".into(),
    ];
    rep.finish()
}
