//! A recording SolverContext: every command is written with the real smt::serialize_cmd – byte
//! identical to what SmtLibSolverCtx sends – and kept for inspection.

use patronus::expr::{Context, ExprRef};
use patronus::smt::{CheckSatResponse, Logic, Result, SmtCommand, SolverContext, SolverMetaData, serialize_cmd};

pub struct Recorder {
    pub text: String,
    pub cmds: Vec<SmtCommand>,
    pub depth: usize,
    pub check_assuming: bool,
}

impl Recorder {
    pub fn new() -> Self {
        Recorder { text: String::new(), cmds: vec![], depth: 0, check_assuming: true }
    }
    fn w(&mut self, ctx: Option<&Context>, cmd: SmtCommand) {
        let mut buf: Vec<u8> = vec![];
        serialize_cmd(&mut buf, ctx, &cmd).expect("serialize_cmd failed");
        self.text.push_str(&String::from_utf8(buf).expect("non UTF-8 command"));
        self.cmds.push(cmd);
    }
}

impl Default for Recorder {
    fn default() -> Self {
        Self::new()
    }
}

impl SolverMetaData for Recorder {
    fn name(&self) -> &str {
        "z3"
    }
    fn supports_check_assuming(&self) -> bool {
        self.check_assuming
    }
    fn supports_uf(&self) -> bool {
        true
    }
    fn supports_const_array(&self) -> bool {
        true
    }
    fn supports_get_unsat_assumptions(&self) -> bool {
        true
    }
}

impl SolverContext for Recorder {
    fn restart(&mut self) -> Result<()> {
        Ok(())
    }
    fn set_logic(&mut self, l: Logic) -> Result<()> {
        self.w(None, SmtCommand::SetLogic(l));
        Ok(())
    }
    fn assert(&mut self, ctx: &Context, e: ExprRef) -> Result<()> {
        self.w(Some(ctx), SmtCommand::Assert(e));
        Ok(())
    }
    fn declare_const(&mut self, ctx: &Context, s: ExprRef) -> Result<()> {
        self.w(Some(ctx), SmtCommand::DeclareConst(s));
        Ok(())
    }
    fn define_const(&mut self, ctx: &Context, s: ExprRef, e: ExprRef) -> Result<()> {
        self.w(Some(ctx), SmtCommand::DefineConst(s, e));
        Ok(())
    }
    fn check_sat_assuming(&mut self, ctx: &Context, props: impl IntoIterator<Item = ExprRef>) -> Result<CheckSatResponse> {
        let p: Vec<ExprRef> = props.into_iter().collect();
        self.w(Some(ctx), SmtCommand::CheckSatAssuming(p));
        Ok(CheckSatResponse::Unsat)
    }
    fn check_sat(&mut self) -> Result<CheckSatResponse> {
        self.w(None, SmtCommand::CheckSat);
        Ok(CheckSatResponse::Unsat)
    }
    fn push(&mut self) -> Result<()> {
        self.depth += 1;
        self.w(None, SmtCommand::Push(1));
        Ok(())
    }
    fn pop(&mut self) -> Result<()> {
        self.depth = self.depth.saturating_sub(1);
        self.w(None, SmtCommand::Pop(1));
        Ok(())
    }
    fn get_value(&mut self, _ctx: &mut Context, _e: ExprRef) -> Result<ExprRef> {
        unimplemented!("recorder has no model")
    }
    fn get_unsat_assumptions(&mut self, _ctx: &mut Context) -> Result<Vec<ExprRef>> {
        unimplemented!("recorder has no cores")
    }
}
