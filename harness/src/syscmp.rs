//! Function-by-function comparison of two transition systems (used by C09 and C11), and the
//! loader for the btor2 designs shipped under /repo/inputs.

use crate::miter::{self, Portfolio, Verdict};
use crate::refsmt::{self, RefEnc};
use crate::report::{Report, Role};
use crate::solver::{Answer, Proc};
use patronus::expr::{Context, ExprRef};
use patronus::system::TransitionSystem;
use serde_json::json;
use std::collections::HashMap;
use std::path::PathBuf;

pub struct FnPair {
    pub what: String,
    pub a: ExprRef,
    pub b: ExprRef,
}

/// positional pairing of all functions of two systems; Err = structural mismatch
pub fn pair_functions(a: &TransitionSystem, b: &TransitionSystem) -> Result<Vec<FnPair>, String> {
    let mut out = vec![];
    if a.states.len() != b.states.len() {
        return Err(format!("{} states became {}", a.states.len(), b.states.len()));
    }
    if a.outputs.len() != b.outputs.len() {
        return Err(format!("{} outputs became {}", a.outputs.len(), b.outputs.len()));
    }
    if a.bad_states.len() != b.bad_states.len() {
        return Err(format!("{} bad states became {}", a.bad_states.len(), b.bad_states.len()));
    }
    if a.constraints.len() != b.constraints.len() {
        return Err(format!("{} constraints became {}", a.constraints.len(), b.constraints.len()));
    }
    for (i, (sa, sb)) in a.states.iter().zip(b.states.iter()).enumerate() {
        match (sa.init, sb.init) {
            (Some(x), Some(y)) => out.push(FnPair { what: format!("init[{i}]"), a: x, b: y }),
            (None, None) => {}
            (x, y) => return Err(format!("state {i}: init {:?} became {:?}", x.is_some(), y.is_some())),
        }
        match (sa.next, sb.next) {
            (Some(x), Some(y)) => out.push(FnPair { what: format!("next[{i}]"), a: x, b: y }),
            (None, None) => {}
            (x, y) => return Err(format!("state {i}: next {:?} became {:?}", x.is_some(), y.is_some())),
        }
    }
    for (i, (x, y)) in a.outputs.iter().zip(b.outputs.iter()).enumerate() {
        out.push(FnPair { what: format!("output[{i}]"), a: x.expr, b: y.expr });
    }
    for (i, (x, y)) in a.bad_states.iter().zip(b.bad_states.iter()).enumerate() {
        out.push(FnPair { what: format!("bad[{i}]"), a: *x, b: *y });
    }
    for (i, (x, y)) in a.constraints.iter().zip(b.constraints.iter()).enumerate() {
        out.push(FnPair { what: format!("constraint[{i}]"), a: *x, b: *y });
    }
    Ok(out)
}

pub struct CmpCfg<'a> {
    pub site: &'a str,
    pub label: String,
    /// substitution applied to both sides
    pub sym_map: HashMap<ExprRef, String>,
    pub force_decl: Vec<ExprRef>,
    /// undecided miters are listed but do not make the run undecided (shipped designs)
    pub soft_inconclusive: bool,
    pub replay: serde_json::Value,
}

/// Decide every function pair; reports violations / inconclusives into `rep`.
pub fn decide_pairs(rep: &mut Report, ctx: &Context, fast: &mut Proc, hard: &mut Portfolio, pairs: &[FnPair], cfg: &CmpCfg) {
    let mut todo: Vec<&FnPair> = vec![];
    for p in pairs {
        rep.count("obligations", 1);
        if p.a == p.b && cfg.sym_map.is_empty() {
            rep.count("identical_by_hash_consing", 1);
            rep.count("discharged", 1);
            continue;
        }
        // type clause (independent)
        match (RefEnc::type_of(ctx, p.a), RefEnc::type_of(ctx, p.b)) {
            (Ok(x), Ok(y)) if x == y => todo.push(p),
            (x, y) => {
                rep.violation(
                    Role::new(cfg.site, &p.what.split('[').next().unwrap_or("?").to_string(), "type"),
                    format!("{}: {} changes type / is ill-typed: {:?} vs {:?}", cfg.label, p.what, x, y),
                    json!({"system": cfg.replay, "function": p.what}),
                );
            }
        }
    }
    let mut bodies = vec![];
    let mut ok = vec![];
    for p in todo.iter() {
        match refsmt::miter_mapped(ctx, p.a, p.b, &cfg.sym_map, &cfg.force_decl, true) {
            Ok(m) => {
                bodies.push(m.text);
                ok.push(true);
            }
            Err(_) => ok.push(false),
        }
    }
    let answers = fast.check_batch(&bodies);
    let mut ai = 0;
    for (pi, p) in todo.iter().enumerate() {
        if !ok[pi] {
            rep.undecided.push(format!("{}: miter for {} could not be built", cfg.label, p.what));
            continue;
        }
        let a = answers[ai].clone();
        ai += 1;
        if a == Answer::Unsat {
            rep.count("discharged", 1);
            rep.count("miters_unsat", 1);
            if rep.get("miters_unsat") % 97 == 1 {
                rep.sample(json!({"system": cfg.label, "function": p.what, "before": crate::c01::show(ctx, p.a), "after": crate::c01::show(ctx, p.b), "answer": "unsat"}), 10);
            }
            continue;
        }
        // precise, with model
        let m = refsmt::miter_mapped(ctx, p.a, p.b, &cfg.sym_map, &cfg.force_decl, false).unwrap();
        hard.ensure_started();
        let mut decided = false;
        let mut why = vec![];
        for proc in hard.procs.iter_mut() {
            if proc.which == crate::solver::Which::Cvc5 && !m.cvc5_ok {
                continue;
            }
            proc.push();
            let ans = proc.check(&m.text);
            match ans {
                Answer::Unsat => {
                    proc.pop();
                    rep.count("discharged", 1);
                    rep.count("miters_unsat", 1);
                    decided = true;
                    break;
                }
                Answer::Sat => {
                    let model = miter::read_model(proc, &m.decls);
                    proc.pop();
                    match model {
                        Ok(model) => {
                            // confirm with the big-integer evaluator (substituted symbols: evaluate the map targets is not
                            // possible in general, so confirmation is restricted to the unsubstituted case)
                            let env = miter::model_env(&model);
                            let confirmed = if cfg.sym_map.is_empty() {
                                match (crate::bigeval::eval(ctx, &env, p.a), crate::bigeval::eval(ctx, &env, p.b)) {
                                    (Ok(x), Ok(y)) => Some(!crate::bigeval::vals_equal(&x, &y)),
                                    _ => None,
                                }
                            } else {
                                None
                            };
                            if confirmed == Some(false) {
                                rep.undecided.push(format!("ENCODING-ERROR: {} {}: model not confirmed by the big-integer evaluator", cfg.label, p.what));
                            } else {
                                rep.count("disagreements_checked", 1);
                                rep.violation(
                                    Role::new(cfg.site, p.what.split('[').next().unwrap_or("?"), "value"),
                                    format!(
                                        "{}: {} is not equivalent: before {} / after {} differ under {}",
                                        cfg.label,
                                        p.what,
                                        crate::c01::show(ctx, p.a),
                                        crate::c01::show(ctx, p.b),
                                        model.iter().map(|(e, _, v)| format!("{}={}", ctx.get_symbol_name(*e).unwrap_or("?"), v.show())).collect::<Vec<_>>().join(", ")
                                    ),
                                    json!({"system": cfg.replay, "function": p.what, "model": miter::model_json(ctx, &model), "confirmed_by_big_integer_evaluator": confirmed,
                                        "real_eval_before": miter::real_eval(ctx, &model, p.a), "real_eval_after": miter::real_eval(ctx, &model, p.b), "smt2": m.text}),
                                );
                            }
                            decided = true;
                        }
                        Err(e) => why.push(format!("{}: sat, model unreadable ({e})", proc.which.name())),
                    }
                    if decided {
                        break;
                    }
                }
                Answer::Timeout => why.push(format!("{}: timeout", proc.which.name())),
                other => {
                    proc.pop();
                    why.push(format!("{}: {}", proc.which.name(), other.short()));
                }
            }
        }
        if !decided {
            if cfg.soft_inconclusive {
                rep.count("undecided_roots_listed_not_counted", 1);
                rep.uncount("obligations", 1);
                if rep.inconclusive.len() < 40 {
                    rep.inconclusive.push(json!({"system": cfg.label, "function": p.what, "why": why.join("; ")}));
                }
            } else {
                rep.inconc(json!({"system": cfg.label, "function": p.what, "why": why.join("; ")}));
            }
        }
    }
}

pub fn shipped_files(thorough: bool) -> Vec<PathBuf> {
    let root = crate::report::repo_root().join("inputs");
    let mut out = vec![];
    let mut stack = vec![root];
    while let Some(d) = stack.pop() {
        let Ok(rd) = std::fs::read_dir(&d) else { continue };
        for e in rd.flatten() {
            let p = e.path();
            if p.is_dir() {
                stack.push(p);
            } else if matches!(p.extension().and_then(|x| x.to_str()), Some("btor") | Some("btor2")) {
                let big = p.to_string_lossy().contains("/repair/") || p.to_string_lossy().contains("/lakeroad/");
                if thorough || !big {
                    out.push(p);
                }
            }
        }
    }
    out.sort();
    out
}

/// all symbols occurring in an expression (own traversal)
pub fn symbols_of(ctx: &Context, roots: &[ExprRef]) -> std::collections::HashSet<ExprRef> {
    let mut seen = std::collections::HashSet::new();
    let mut syms = std::collections::HashSet::new();
    let mut stack: Vec<ExprRef> = roots.to_vec();
    while let Some(e) = stack.pop() {
        if !seen.insert(e) {
            continue;
        }
        let n = refsmt::decompose(&ctx[e]);
        if matches!(n.op, refsmt::Op::BVSymbol | refsmt::Op::ArraySymbol) {
            syms.insert(e);
        }
        stack.extend(n.kids);
    }
    syms
}

pub fn all_roots(sys: &TransitionSystem) -> Vec<ExprRef> {
    let mut r = vec![];
    for s in sys.states.iter() {
        r.extend(s.init);
        r.extend(s.next);
    }
    r.extend(sys.outputs.iter().map(|o| o.expr));
    r.extend(sys.bad_states.iter().copied());
    r.extend(sys.constraints.iter().copied());
    r
}

pub fn verdict_unused(_: Verdict) {}
