//! C19 — arithmetic e-graph rewrites are value-preserving under their side conditions.
//! Real code: create_rewrites(), ArithRewrite::patterns / eval_condition, from_arith, to_arith.

use crate::miter::{self, Portfolio, Verdict};
use crate::refsmt::{self, RefEnc};
use crate::report::{Report, Role, Tier};
use crate::rng::Rng;
use crate::solver::{Answer, Proc, Which};
use egg::{ENodeOrVar, Id, Language, PatternAst, RecExpr, Var};
use patronus::expr::{Context, ExprRef, TypeCheck, WidthInt};
use patronus_egraphs::{Arith, Sign, WidthConstantFold, create_egg_rewrites, create_rewrites, from_arith, is_bin_op, to_arith};
use rayon::prelude::*;
use serde_json::json;

pub const SITE_RULE: &str = "patronus_egraphs::create_rewrites (rule instance lowered with from_arith)";
pub const SITE_CONV: &str = "patronus_egraphs::to_arith / from_arith";
pub const SITE_SAT: &str = "patronus_egraphs::create_egg_rewrites applied by egg (conditions, WidthConstantFold) + from_arith";

fn vars(p: &PatternAst<Arith>) -> Vec<Var> {
    let mut v: Vec<Var> = p.as_ref().iter().filter_map(|e| if let ENodeOrVar::Var(v) = e { Some(*v) } else { None }).collect();
    v.sort();
    v.dedup();
    v
}

fn var_kind(v: &Var) -> char {
    v.to_string().chars().nth(1).unwrap_or('x')
}

fn inst(p: &PatternAst<Arith>, a: &[(Var, WidthInt)]) -> RecExpr<Arith> {
    let mut out = RecExpr::default();
    let mut map: Vec<Id> = vec![];
    for n in p.as_ref().iter() {
        let id = match n {
            ENodeOrVar::Var(v) => {
                let name = v.to_string();
                let val = a.iter().find(|(k, _)| k == v).map(|x| x.1);
                match var_kind(v) {
                    'w' => out.add(Arith::from(val.unwrap())),
                    's' => out.add(Arith::Sign(if val.unwrap() == 1 { Sign::Signed } else { Sign::Unsigned })),
                    _ => out.add(Arith::Symbol(name[1..].to_string())),
                }
            }
            ENodeOrVar::ENode(e) => {
                let e2 = e.clone().map_children(|c| map[usize::from(c)]);
                out.add(e2)
            }
        };
        map.push(id);
    }
    out
}

/// Independent reading of an Arith term: operands are extended (by their sign) to
/// max(w_a, w_b, w_o) bits, the operator is applied there, the low w_o bits are the result.
/// Returns SMT text over the symbols `s!<idx>` that RefSmt uses for the same patronus symbols.
fn ref_lower(ctx: &mut Context, e: &RecExpr<Arith>, root: usize, expected: u32) -> Result<(String, u32), String> {
    let nodes = e.as_ref();
    fn width(nodes: &[Arith], i: usize) -> Result<u32, String> {
        match &nodes[i] {
            Arith::Width(w) => Ok(u32::from(*w)),
            Arith::WidthMaxPlus1([a, b]) => Ok(width(nodes, usize::from(*a))?.max(width(nodes, usize::from(*b))?) + 1),
            Arith::WidthLeftShift([a, b]) => {
                let (a, b) = (width(nodes, usize::from(*a))?, width(nodes, usize::from(*b))?);
                if b >= 20 { Err("shift width too large".into()) } else { Ok(a + (1u32 << b) - 1) }
            }
            other => Err(format!("not a width: {other:?}")),
        }
    }
    let sign = |i: usize| -> Result<bool, String> {
        match &nodes[i] {
            Arith::Sign(Sign::Signed) => Ok(true),
            Arith::Sign(Sign::Unsigned) => Ok(false),
            other => Err(format!("not a sign: {other:?}")),
        }
    };
    match &nodes[root] {
        Arith::Symbol(name) => {
            let s = ctx.bv_symbol(name, expected);
            Ok((format!("s!{}", usize::from(s)), expected))
        }
        Arith::Const(v) => {
            let v = if expected < 64 { v & ((1u64 << expected) - 1) } else { *v };
            Ok((crate::bigeval::bv_smt(&num_bigint::BigUint::from(v), expected), expected))
        }
        n if patronus_egraphs::is_bin_op(n) => {
            let c = n.children();
            let wo = width(nodes, usize::from(c[0]))?;
            let wa = width(nodes, usize::from(c[1]))?;
            let sa = sign(usize::from(c[2]))?;
            let wb = width(nodes, usize::from(c[4]))?;
            let sb = sign(usize::from(c[5]))?;
            let (ta, _) = ref_lower(ctx, e, usize::from(c[3]), wa)?;
            let (tb, _) = ref_lower(ctx, e, usize::from(c[6]), wb)?;
            let cw = wo.max(wa).max(wb);
            let ext = |t: String, w: u32, s: bool| if cw == w { t } else { format!("((_ {} {}) {t})", if s { "sign_extend" } else { "zero_extend" }, cw - w) };
            let (xa, xb) = (ext(ta, wa, sa), ext(tb, wb, sb));
            let op = match n {
                Arith::Add(_) => "bvadd",
                Arith::Sub(_) => "bvsub",
                Arith::Mul(_) => "bvmul",
                Arith::LeftShift(_) => "bvshl",
                Arith::RightShift(_) => "bvlshr",
                Arith::ArithmeticRightShift(_) => "bvashr",
                _ => unreachable!(),
            };
            let full = format!("({op} {xa} {xb})");
            Ok((if cw == wo { full } else { format!("((_ extract {} 0) {full})", wo - 1) }, wo))
        }
        other => Err(format!("unexpected node {other:?}")),
    }
}

struct Inst {
    rule: String,
    assign: Vec<(Var, WidthInt)>,
}

fn assignments(params: &[Var], maxw: u32, tier: Tier, seed: u64, rule: &str) -> Vec<Vec<(Var, WidthInt)>> {
    let mut out = vec![];
    let mut idx = vec![0u32; params.len()];
    if params.is_empty() {
        return vec![vec![]];
    }
    'outer: loop {
        out.push(params.iter().zip(idx.iter()).map(|(v, i)| (*v, if var_kind(v) == 'w' { i + 1 } else { *i })).collect());
        let mut k = 0;
        loop {
            if k == idx.len() {
                break 'outer;
            }
            let lim = if var_kind(&params[k]) == 'w' { maxw } else { 2 };
            idx[k] += 1;
            if idx[k] < lim {
                break;
            }
            idx[k] = 0;
            k += 1;
        }
    }
    // sampled: one width parameter large, the others small
    let n = tier.pick(400usize, 4000usize);
    for i in 0..n {
        let mut rng = Rng::new(seed, &format!("C19-{rule}"), i as u64);
        let big = rng.below(params.len());
        out.push(
            params
                .iter()
                .enumerate()
                .map(|(k, v)| {
                    if var_kind(v) == 'w' {
                        (*v, if k == big { *rng.pick(&[8u32, 16, 31, 32, 33]) } else { rng.range(1, 6) })
                    } else {
                        (*v, rng.below(2) as u32)
                    }
                })
                .collect(),
        );
    }
    out
}

fn show_assign(a: &[(Var, WidthInt)]) -> String {
    a.iter().map(|(v, w)| format!("{v}={w}")).collect::<Vec<_>>().join(" ")
}

fn class_of(a: &[(Var, WidthInt)]) -> String {
    // operand/sign situation, not the concrete widths
    let get = |n: &str| a.iter().find(|(v, _)| v.to_string() == n).map(|x| x.1);
    let mut parts = vec![];
    for s in ["?sa", "?sb"] {
        if let Some(v) = get(s) {
            parts.push(format!("{}={}", &s[1..], if v == 1 { "signed" } else { "unsigned" }));
        }
    }
    if let (Some(wo), Some(wa)) = (get("?wo"), get("?wa")) {
        parts.push(format!("wo{}wa", if wo > wa { ">" } else if wo == wa { "=" } else { "<" }));
    }
    if let (Some(wo), Some(wb)) = (get("?wo"), get("?wb")) {
        parts.push(format!("wo{}wb", if wo > wb { ">" } else if wo == wb { "=" } else { "<" }));
    }
    parts.join(";")
}

fn rules_part(rep: &mut Report, tier: Tier, seed: u64) {
    let rules = create_rewrites();
    let maxw = tier.pick(4u32, 5u32);
    let mut insts: Vec<Inst> = vec![];
    for rule in rules.iter() {
        let (lhs, rhs) = rule.patterns();
        let mut vs = vars(lhs);
        vs.extend(vars(rhs));
        vs.sort();
        vs.dedup();
        let params: Vec<Var> = vs.iter().copied().filter(|v| matches!(var_kind(v), 'w' | 's')).collect();
        let all = assignments(&params, maxw, tier, seed, rule.name());
        let mut cond_true = 0u64;
        for a in all.iter() {
            rep.count("width_sign_assignments", 1);
            if crate::panics::guarded(|| rule.eval_condition(a)).unwrap_or(false) {
                cond_true += 1;
                insts.push(Inst { rule: rule.name().to_string(), assign: a.clone() });
            }
        }
        rep.extra.insert(format!("rule:{}", rule.name()), json!({"parameters": params.len(), "assignments": all.len(), "side_condition_holds": cond_true}));
    }
    let parts: Vec<Report> = insts
        .par_chunks(300)
        .map(|chunk| {
            let mut r = Report::new("C19", tier, seed, "translation_validation");
            let mut fast = Proc::new(Which::Z3New, 5000);
            let mut hard = Portfolio::new(tier.pick(20_000, 60_000));
            let rules = create_rewrites();
            for sub in chunk.chunks(50) {
                let mut ctx = Context::default();
                let mut bodies = vec![];
                let mut meta: Vec<(usize, &'static str, ExprRef, ExprRef)> = vec![];
                for (ii, inst_) in sub.iter().enumerate() {
                    r.count("programs", 1);
                    let rule = rules.iter().find(|x| x.name() == inst_.rule).unwrap();
                    let (lp, rp) = rule.patterns();
                    let (li, ri) = (inst(lp, &inst_.assign), inst(rp, &inst_.assign));
                    let lowered = crate::panics::guarded(|| {
                        let l = from_arith(&mut ctx, &li);
                        let rr = from_arith(&mut ctx, &ri);
                        (l, rr)
                    });
                    let (l, rr) = match lowered {
                        Ok(x) => x,
                        Err((loc, msg)) => {
                            r.count("obligations", 1);
                            r.violation(Role::new(SITE_RULE, &inst_.rule, &format!("panic@{loc}")), format!("rule {} [{}]: from_arith panicked: {msg}", inst_.rule, show_assign(&inst_.assign)), json!({"rule": inst_.rule, "assignment": show_assign(&inst_.assign)}));
                            continue;
                        }
                    };
                    r.count("obligations", 1);
                    if l.get_type(&ctx) != rr.get_type(&ctx) {
                        r.violation(Role::new(SITE_RULE, &inst_.rule, &format!("width;{}", class_of(&inst_.assign))), format!("rule {} [{}]: the two sides have different widths", inst_.rule, show_assign(&inst_.assign)), json!({"rule": inst_.rule, "assignment": show_assign(&inst_.assign)}));
                        continue;
                    }
                    match refsmt::miter(&ctx, l, rr) {
                        Ok(m) => {
                            bodies.push(m.text);
                            meta.push((ii, "rule", l, rr));
                        }
                        Err(e) => r.undecided.push(format!("miter failed: {e:?}")),
                    }
                    // from_arith against the independent reading of the Arith terms (both sides)
                    for (side, term, lowered) in [("lhs", &li, l), ("rhs", &ri, rr)] {
                        let w = lowered.get_bv_type(&ctx).unwrap_or(1);
                        if let Ok((rt, rw)) = ref_lower(&mut ctx, term, term.as_ref().len() - 1, w) {
                            r.count("obligations", 1);
                            let mut enc = RefEnc::new(&ctx, "n");
                            if let Ok((t, ty)) = enc.enc(lowered) {
                                if ty.bv() != Some(rw) {
                                    r.violation(Role::new(SITE_CONV, "from_arith", "width"), format!("from_arith gives width {:?}, the term has output width {rw}: {}", ty, term), json!({"rule": inst_.rule, "assignment": show_assign(&inst_.assign), "side": side}));
                                    continue;
                                }
                                // declare every symbol the reference mentions
                                let mut decls = enc.decl_text();
                                for (i, n) in term.as_ref().iter().enumerate() {
                                    if let Arith::Symbol(_) = n {
                                        let _ = i;
                                    }
                                }
                                // symbols only mentioned by the reference (cannot happen: same symbols), keep decls
                                decls.push_str(&enc.defs);
                                bodies.push(format!("{decls}(assert (distinct {t} {rt}))\n"));
                                meta.push((ii, if side == "lhs" { "from_arith-lhs" } else { "from_arith-rhs" }, lowered, lowered));
                            }
                        }
                    }
                }
                let answers = fast.check_batch(&bodies);
                for (k, (ii, what, l, rr)) in meta.iter().enumerate() {
                    let inst_ = &sub[*ii];
                    let mut a = answers[k].clone();
                    if matches!(a, Answer::Unknown | Answer::Timeout) {
                        hard.ensure_started();
                        for p in hard.procs.iter_mut() {
                            a = p.check_once(&bodies[k]);
                            if matches!(a, Answer::Sat | Answer::Unsat) {
                                break;
                            }
                        }
                        if matches!(a, Answer::Unknown | Answer::Timeout) && bodies[k].contains("bvmul") {
                            // integer encoding of multiplication
                            let mut c = Proc::with_args(Which::Cvc5, 30_000, &["--solve-bv-as-int=sum".to_string()]);
                            a = c.check_once(&bodies[k]);
                        }
                    }
                    match a {
                        Answer::Unsat => {
                            r.count("discharged", 1);
                            if r.get("discharged") % 499 == 1 {
                                r.sample(json!({"rule": inst_.rule, "assignment": show_assign(&inst_.assign), "what": what, "lhs": crate::c01::show(&ctx, *l), "rhs": crate::c01::show(&ctx, *rr), "answer": "unsat"}), 12);
                            }
                        }
                        Answer::Sat => {
                            r.count("disagreements_checked", 1);
                            if *what == "rule" {
                                // model + replay through the big-integer evaluator and the real evaluator
                                let (v, _) = hard.check_equiv(&ctx, *l, *rr);
                                let detail = match v {
                                    Verdict::Differ { model, va, vb } => json!({"model": miter::model_json(&ctx, &model), "lhs_value": va.show(), "rhs_value": vb.show(),
                                        "real_eval_lhs": miter::real_eval(&ctx, &model, *l), "real_eval_rhs": miter::real_eval(&ctx, &model, *rr)}),
                                    _ => json!("model not re-derived"),
                                };
                                r.violation(
                                    Role::new(SITE_RULE, &inst_.rule, &format!("value;{}", class_of(&inst_.assign))),
                                    format!("rule {} is unsound for [{}]: {} vs {}", inst_.rule, show_assign(&inst_.assign), crate::c01::show(&ctx, *l), crate::c01::show(&ctx, *rr)),
                                    json!({"rule": inst_.rule, "assignment": show_assign(&inst_.assign), "detail": detail, "smt2": bodies[k]}),
                                );
                            } else {
                                r.violation(
                                    Role::new(SITE_CONV, "from_arith", &format!("value;{}", class_of(&inst_.assign))),
                                    format!("from_arith does not give the {} of rule {} [{}] its meaning (operands extended by sign to max(wa,wb,wo), low wo bits): got {}", what, inst_.rule, show_assign(&inst_.assign), crate::c01::show(&ctx, *l)),
                                    json!({"rule": inst_.rule, "assignment": show_assign(&inst_.assign), "what": what, "smt2": bodies[k]}),
                                );
                            }
                        }
                        Answer::Error(m) => r.undecided.push(format!("ENCODING-ERROR: {m}")),
                        other => {
                            r.count("undecided_instances_listed_not_counted", 1);
                            r.uncount("obligations", 1);
                            if r.inconclusive.len() < 30 {
                                r.inconclusive.push(json!({"rule": inst_.rule, "assignment": show_assign(&inst_.assign), "what": what, "why": other.short()}));
                            }
                        }
                    }
                }
            }
            r.count("solver_time_ms", fast.solver_time.as_millis() as u64 + hard.stats().0);
            r.count("solver_queries", fast.queries + hard.stats().1);
            r
        })
        .collect();
    for p in parts {
        rep.merge(p);
    }
}

// ---------------------------------------------------------------------------------------------
// conversion round trip

fn gen_convertible(ctx: &mut Context, rng: &mut Rng, depth: usize, w: u32) -> ExprRef {
    let ext = |ctx: &mut Context, rng: &mut Rng, e: ExprRef, to: u32| -> ExprRef {
        let cur = e.get_bv_type(ctx).unwrap();
        if cur == to {
            e
        } else if rng.chance(1, 2) {
            ctx.zero_extend(e, to - cur)
        } else {
            ctx.sign_extend(e, to - cur)
        }
    };
    if depth == 0 || rng.chance(1, 4) {
        let ws = rng.range(1, w);
        let name = format!("{}{}", ["a", "b", "c", "d"][rng.below(4)], ws);
        let s = ctx.bv_symbol(&name, ws);
        return ext(ctx, rng, s, w);
    }
    let w1 = rng.range(1, w);
    let a = gen_convertible(ctx, rng, depth - 1, w1);
    let b = gen_convertible(ctx, rng, depth - 1, w1);
    let e = match rng.below(6) {
        0 => ctx.add(a, b),
        1 => ctx.sub(a, b),
        2 => ctx.mul(a, b),
        3 => ctx.shift_left(a, b),
        4 => ctx.shift_right(a, b),
        _ => ctx.arithmetic_shift_right(a, b),
    };
    ext(ctx, rng, e, w)
}

fn conversion_part(rep: &mut Report, tier: Tier, seed: u64) {
    let n = tier.pick(3000u64, 40000u64);
    let idx: Vec<u64> = (0..n).collect();
    let parts: Vec<Report> = idx
        .par_chunks(250)
        .map(|chunk| {
            let mut r = Report::new("C19", tier, seed, "translation_validation");
            let mut fast = Proc::new(Which::Z3New, 5000);
            let mut hard = Portfolio::new(tier.pick(20_000, 60_000));
            for sub in chunk.chunks(50) {
                let mut ctx = Context::default();
                let mut jobs = vec![];
                for &i in sub {
                    let mut rng = Rng::new(seed, "C19-conv", i);
                    let w = *rng.pick(&[1u32, 2, 3, 4, 5, 8, 9, 16]);
                    let d = rng.range(1, 3) as usize;
                    let e = gen_convertible(&mut ctx, &mut rng, d, w);
                    // the root must be an operator for to_arith
                    let e = match crate::refsmt::decompose(&ctx[e]).op {
                        crate::refsmt::Op::BVSymbol | crate::refsmt::Op::ZeroExt | crate::refsmt::Op::SignExt => continue,
                        _ => e,
                    };
                    r.count("programs", 1);
                    r.count("obligations", 1);
                    match crate::panics::guarded(|| {
                        let ar = to_arith(&ctx, e);
                        from_arith(&mut ctx, &ar)
                    }) {
                        Err((loc, msg)) => r.violation(Role::new(SITE_CONV, "round-trip", &format!("panic@{loc}")), format!("to_arith/from_arith panicked on {}: {msg}", crate::c01::show(&ctx, e)), json!({"conv_index": i})),
                        Ok(back) => {
                            if back.get_type(&ctx) != e.get_type(&ctx) {
                                r.violation(Role::new(SITE_CONV, "round-trip", "width"), format!("round trip changes the width of {}", crate::c01::show(&ctx, e)), json!({"conv_index": i}));
                            } else if back == e {
                                r.count("identical_by_hash_consing", 1);
                                r.count("discharged", 1);
                            } else {
                                jobs.push((i, e, back));
                            }
                        }
                    }
                }
                let bodies: Vec<String> = jobs.iter().map(|(_, e, b)| refsmt::miter(&ctx, *e, *b).map(|m| m.text).unwrap_or_else(|_| "(assert false)".into())).collect();
                let answers = fast.check_batch(&bodies);
                for (k, (i, e, back)) in jobs.iter().enumerate() {
                    if answers[k] == Answer::Unsat {
                        r.count("discharged", 1);
                        continue;
                    }
                    let (v, smt) = hard.check_equiv(&ctx, *e, *back);
                    match v {
                        Verdict::Equal => r.count("discharged", 1),
                        Verdict::Differ { model, va, vb } => {
                            r.count("disagreements_checked", 1);
                            let root = crate::refsmt::decompose(&ctx[*e]).op.name();
                            r.violation(
                                Role::new(SITE_CONV, "round-trip", &format!("value;root={root}")),
                                format!("from_arith(to_arith(e)) differs from e = {}: back = {}, {} vs {}", crate::c01::show(&ctx, *e), crate::c01::show(&ctx, *back), va.show(), vb.show()),
                                json!({"conv_index": i, "model": miter::model_json(&ctx, &model), "smt2": smt}),
                            );
                        }
                        Verdict::Unconfirmed { detail, .. } => r.undecided.push(format!("ENCODING-ERROR: {detail}")),
                        Verdict::Inconclusive(why) => {
                            r.count("undecided_instances_listed_not_counted", 1);
                            r.uncount("obligations", 1);
                            if r.inconclusive.len() < 30 {
                                r.inconclusive.push(json!({"conv_index": i, "why": why}));
                            }
                        }
                        Verdict::IllTyped(m) => r.violation(Role::new(SITE_CONV, "round-trip", "ill-typed"), format!("round trip result is ill-typed: {m}"), json!({"conv_index": i})),
                    }
                }
            }
            r
        })
        .collect();
    for p in parts {
        rep.merge(p);
    }
}

// ---------------------------------------------------------------------------------------------
// the shipped rule set as egg applies it

/// expressions on which the shipped rules fire (left-hand sides built as patronus expressions), or a random
/// convertible expression
fn gen_for_saturation(ctx: &mut Context, rng: &mut Rng) -> ExprRef {
    let sym = |ctx: &mut Context, rng: &mut Rng, n: &str, maxw: u32| -> ExprRef {
        let w = rng.range(1, maxw);
        ctx.bv_symbol(&format!("{n}{w}"), w)
    };
    let ext = |ctx: &mut Context, e: ExprRef, to: u32, signed: bool| -> ExprRef {
        let cur = e.get_bv_type(ctx).unwrap();
        if cur >= to {
            if cur == to { e } else { ctx.slice(e, to - 1, 0) }
        } else if signed {
            ctx.sign_extend(e, to - cur)
        } else {
            ctx.zero_extend(e, to - cur)
        }
    };
    match rng.below(6) {
        0 => {
            // (a << b) << c
            let (a, b, c) = (sym(ctx, rng, "a", 4), sym(ctx, rng, "b", 3), sym(ctx, rng, "c", 3));
            let (wa, wb, wc) = (a.get_bv_type(ctx).unwrap(), b.get_bv_type(ctx).unwrap(), c.get_bv_type(ctx).unwrap());
            let wab = rng.range(2, 8).max(wa).max(wb);
            // the rule needs wab >= wo; expressions coming from patronus have wo >= wab
            let wo = (if rng.chance(2, 3) { wab } else { wab + rng.range(1, 2) }).max(wc);
            let sa = rng.chance(1, 2);
            let (ae, be) = (ext(ctx, a, wab, sa), ext(ctx, b, wab, false));
            let inner = ctx.shift_left(ae, be);
            let ie = ext(ctx, inner, wo, sa);
            let ce = ext(ctx, c, wo, false);
            ctx.shift_left(ie, ce)
        }
        1 => {
            // a << (b + c)
            let (a, b, c) = (sym(ctx, rng, "a", 4), sym(ctx, rng, "b", 3), sym(ctx, rng, "c", 3));
            let wbc = (b.get_bv_type(ctx).unwrap().max(c.get_bv_type(ctx).unwrap()) + rng.range(0, 2)).max(1);
            let (be, ce) = (ext(ctx, b, wbc, false), ext(ctx, c, wbc, false));
            let sum = ctx.add(be, ce);
            let wo = rng.range(1, 8).max(wbc).max(a.get_bv_type(ctx).unwrap());
            let sa = rng.chance(1, 2);
            let (ae, se) = (ext(ctx, a, wo, sa), ext(ctx, sum, wo, false));
            ctx.shift_left(ae, se)
        }
        2 => {
            // (a * b) << c
            let (a, b, c) = (sym(ctx, rng, "a", 3), sym(ctx, rng, "b", 3), sym(ctx, rng, "c", 2));
            let (wa, wb) = (a.get_bv_type(ctx).unwrap(), b.get_bv_type(ctx).unwrap());
            let wab = (wa + wb + rng.range(0, 1)).saturating_sub(rng.below(2) as u32).max(wa.max(wb));
            let (ae, be) = (ext(ctx, a, wab, false), ext(ctx, b, wab, false));
            let prod = ctx.mul(ae, be);
            let wc = c.get_bv_type(ctx).unwrap();
            let wo = (wab + (1u32 << wc) - 1 + rng.range(0, 1)).saturating_sub(rng.below(3) as u32).max(wab).max(wc);
            let (pe, ce) = (ext(ctx, prod, wo, false), ext(ctx, c, wo, false));
            ctx.shift_left(pe, ce)
        }
        3 => {
            // a + b, a * b at mixed widths and signs
            let (a, b) = (sym(ctx, rng, "a", 5), sym(ctx, rng, "b", 5));
            let wo = rng.range(1, 8).max(a.get_bv_type(ctx).unwrap()).max(b.get_bv_type(ctx).unwrap());
            let (ae, be) = (ext(ctx, a, wo, rng.chance(1, 2)), ext(ctx, b, wo, rng.chance(1, 2)));
            if rng.chance(1, 2) { ctx.add(ae, be) } else { ctx.mul(ae, be) }
        }
        _ => {
            let w = *rng.pick(&[2u32, 3, 4, 5, 6, 8]);
            let d = rng.range(1, 3) as usize;
            gen_convertible(ctx, rng, d, w)
        }
    }
}

fn saturation_part(rep: &mut Report, tier: Tier, seed: u64) {
    let n = tier.pick(800u64, 8000u64);
    let idx: Vec<u64> = (0..n).collect();
    let parts: Vec<Report> = idx
        .par_chunks(100)
        .map(|chunk| {
            let mut r = Report::new("C19", tier, seed, "translation_validation");
            let mut fast = Proc::new(Which::Z3New, 5000);
            let mut hard = Portfolio::new(tier.pick(20_000, 60_000));
            // ONE rule set per worker, re-used for every expression of the chunk (as a tool would)
            let rewrites = match crate::panics::guarded(create_egg_rewrites) {
                Ok(x) => x,
                Err((loc, msg)) => {
                    r.violation(Role::new(SITE_SAT, "create_egg_rewrites", &format!("panic@{loc}")), format!("create_egg_rewrites panicked: {msg}"), json!({}));
                    return r;
                }
            };
            for &i in chunk {
                let mut ctx = Context::default();
                let mut rng = Rng::new(seed, "C19-sat", i);
                let e = gen_for_saturation(&mut ctx, &mut rng);
                if matches!(crate::refsmt::decompose(&ctx[e]).op, crate::refsmt::Op::BVSymbol | crate::refsmt::Op::ZeroExt | crate::refsmt::Op::SignExt | crate::refsmt::Op::Slice) {
                    continue;
                }
                r.count("programs", 1);
                let shown = crate::c01::show(&ctx, e);
                // saturate with the shipped rules
                let sat = crate::panics::guarded(|| {
                    let ar = to_arith(&ctx, e);
                    let runner = egg::Runner::<Arith, WidthConstantFold>::default().with_expr(&ar).with_iter_limit(4).with_node_limit(4000).with_time_limit(std::time::Duration::from_secs(5)).run(&rewrites);
                    let egraph = runner.egraph;
                    let root = egraph.find(runner.roots[0]);
                    // per class: the smallest term, and every bin-op node over the smallest terms of its children
                    let ext = egg::Extractor::new(&egraph, egg::AstSize);
                    let mut out: Vec<(bool, Vec<RecExpr<Arith>>)> = vec![];
                    for class in egraph.classes() {
                        let mut alts: Vec<RecExpr<Arith>> = vec![];
                        for node in class.nodes.iter() {
                            if !is_bin_op(node) {
                                continue;
                            }
                            let t = node.join_recexprs(|id| ext.find_best(id).1);
                            alts.push(t);
                        }
                        if !alts.is_empty() {
                            out.push((egraph.find(class.id) == root, alts));
                        }
                    }
                    out
                });
                let classes = match sat {
                    Ok(c) => c,
                    Err((loc, msg)) => {
                        r.count("obligations", 1);
                        r.violation(Role::new(SITE_SAT, "saturate", &format!("panic@{loc}")), format!("saturating {shown} with the shipped rules panicked: {msg}"), json!({"sat_index": i}));
                        continue;
                    }
                };
                let mut jobs: Vec<(ExprRef, ExprRef, String)> = vec![];
                for (is_root, alts) in classes.iter() {
                    let mut lowered: Vec<(ExprRef, String)> = vec![];
                    for t in alts.iter() {
                        match crate::panics::guarded(|| from_arith(&mut ctx, t)) {
                            Ok(x) => lowered.push((x, t.to_string())),
                            Err((loc, msg)) => {
                                r.count("obligations", 1);
                                r.violation(Role::new(SITE_SAT, "from_arith", &format!("panic@{loc}")), format!("from_arith panicked on e-class member {t} (from {shown}): {msg}"), json!({"sat_index": i}));
                            }
                        }
                    }
                    if lowered.is_empty() {
                        continue;
                    }
                    // reference of the class: the original expression for the root class, else the first member
                    let (reference, ref_txt) = if *is_root { (e, shown.clone()) } else { lowered[0].clone() };
                    for (x, t) in lowered.iter() {
                        if *x == reference {
                            continue;
                        }
                        r.count("obligations", 1);
                        if x.get_type(&ctx) != reference.get_type(&ctx) {
                            r.violation(Role::new(SITE_SAT, "e-class", "width"), format!("after saturating {shown}: e-class holds terms of different widths: {t} and {ref_txt}"), json!({"sat_index": i}));
                            continue;
                        }
                        jobs.push((reference, *x, t.clone()));
                    }
                }
                r.count("eclass_members", jobs.len() as u64);
                let bodies: Vec<String> = jobs.iter().map(|(a, b, _)| refsmt::miter(&ctx, *a, *b).map(|m| m.text).unwrap_or_else(|_| "(assert false)".into())).collect();
                let answers = fast.check_batch(&bodies);
                for (k, (a, b, t)) in jobs.iter().enumerate() {
                    if answers[k] == Answer::Unsat {
                        r.count("discharged", 1);
                        continue;
                    }
                    let (v, smt) = hard.check_equiv(&ctx, *a, *b);
                    match v {
                        Verdict::Equal => r.count("discharged", 1),
                        Verdict::Differ { model, va, vb } => {
                            r.count("disagreements_checked", 1);
                            let root = t.split_whitespace().next().unwrap_or("?").trim_start_matches('(').to_string();
                            r.violation(
                                Role::new(SITE_SAT, "e-class", &format!("value;member={root}")),
                                format!("after saturating {shown} with the shipped rules an e-class holds two terms that differ: {} vs member {t} = {}: {} vs {}", crate::c01::show(&ctx, *a), crate::c01::show(&ctx, *b), va.show(), vb.show()),
                                json!({"sat_index": i, "model": miter::model_json(&ctx, &model), "smt2": smt}),
                            );
                        }
                        Verdict::Unconfirmed { detail, .. } => r.undecided.push(format!("ENCODING-ERROR: {detail}")),
                        Verdict::Inconclusive(why) => {
                            r.count("undecided_instances_listed_not_counted", 1);
                            r.uncount("obligations", 1);
                            if r.inconclusive.len() < 30 {
                                r.inconclusive.push(json!({"sat_index": i, "why": why}));
                            }
                        }
                        Verdict::IllTyped(m) => r.violation(Role::new(SITE_SAT, "e-class", "ill-typed"), format!("e-class member {t} lowers to an ill-typed expression: {m}"), json!({"sat_index": i})),
                    }
                }
            }
            r
        })
        .collect();
    for p in parts {
        rep.merge(p);
    }
}

pub fn run(tier: Tier, seed: u64, _replay: Option<serde_json::Value>) -> i32 {
    let mut rep = Report::new("C19", tier, seed, "translation_validation");
    if _replay.is_some() {
        rep.write_files = false;
    }
    rules_part(&mut rep, tier, seed);
    conversion_part(&mut rep, tier, seed);
    saturation_part(&mut rep, tier, seed);
    // vacuity guard: the shipped rules must actually have produced e-class members to judge
    if rep.get("eclass_members") < 100 {
        rep.undecided.push(format!("saturation part is vacuous: only {} e-class members were produced by the shipped rules", rep.get("eclass_members")));
    }
    rep.extra.insert("bounds".into(), json!({"width_parameters_exhaustive": format!("1..={}", tier.pick(4, 5)), "signs": "both per sign parameter", "sampled": "one width parameter in {8,16,31,32,33}, the others 1..6",
        "conversion_expressions": tier.pick(3000, 40000), "conversion_fragment": "add sub mul shl lshr ashr over zero/sign-extended symbols, depth <= 3, widths <= 16"}));
    rep.extra.insert("functions_encoded".into(), json!(["create_rewrites", "ArithRewrite::patterns", "ArithRewrite::eval_condition", "from_arith", "to_arith", "eval_width_max_plus_1", "eval_width_left_shift", "create_egg_rewrites / ArithRewrite::to_egg (conditions evaluated by egg against the e-graph)", "WidthConstantFold"]));
    rep.extra.insert("outside_claim".into(), json!(["width parameters above 5 except the sampled ones", "instances whose multiplication miter no solver decides (listed)", "the egg saturation engine itself (its e-classes are judged: every bin-op member over the smallest child terms must equal the class reference; 4 iterations, 4000 nodes)"]));
    rep.assumptions = vec!["RefSmt is the SMT-LIB reading of Expr".into(), "the Arith language means: operands extended by their sign to max(wa, wb, wo), operator applied, low wo bits (independent reading used to judge from_arith)".into()];
    rep.finish()
}
