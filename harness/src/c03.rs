//! C03 — every reported counterexample is a real execution that hits a bad state.
//! Real code: bmc's get_witness, get_smt_value, SolverContext::get_value (parse of live solver
//! responses), pdr's BMC fall-back. Witnesses are judged against RefUnroll (never against the
//! script patronus sent): Q1 must be sat, Q2 must be unsat.

use crate::c02::{self, Verdict, with_timeout};
use crate::live::{self, PROFILES, Profile};
use crate::report::{Report, Role, Tier};
use crate::solver::{Answer, Proc, Which};
use crate::sysgen::{self, GenCfg, SysSpec};
use crate::witness;
use patronus::expr::Context;
use patronus::mc::{ModelCheckResult, pdr};
use rayon::prelude::*;
use serde_json::json;
use std::time::Duration;

pub const SITE: &str = "mc::bmc get_witness / mc::pdr BMC fall-back (get_smt_value, SolverContext::get_value)";

pub fn gen_cfg() -> GenCfg {
    GenCfg { max_states: 3, max_inputs: 2, max_width: 4, arrays: true, max_depth: 2, div: false, max_state_bits: 10, total: false }
}

pub fn spec_for(seed: u64, index: u64) -> SysSpec {
    if index >= c02::PROBE_BASE {
        // operator probes of C02: a wrong encoding of one operator makes a safe probe fail, and the witness
        // of that failure cannot be an execution of the system
        return c02::probe_spec(index - c02::PROBE_BASE).expect("probe index out of range");
    }
    {
        let mut spec = sysgen::generate(seed, "C03", index, &gen_cfg());
        // bad states over inputs only, tied to a counter by a constraint
        // phase bits next to a counter
        if index % 11 == 9 {
            sysgen::phase_counter(&mut spec, index / 11);
        }
        // a constraint gated by a chain of delay registers
        if index % 11 == 7 {
            sysgen::delayed_gate(&mut spec, index / 11);
        }
        // an array-typed input (a look-up table the environment provides): the witness must give it a value
        // at every step like any other input
        if index % 6 == 2 && spec.inputs.len() < 10 {
            use crate::refsmt::{Op, Ty};
            use crate::shapes::Sh;
            let ai = spec.inputs.len() as u8;
            spec.inputs.push(Ty::Arr(2, 3));
            spec.anon_inputs.push(false);
            let rd = Sh::Op(Op::ArrayRead, [0, 0], vec![Sh::Sym(ai, Ty::Arr(2, 3)), Sh::Lit(2, num_bigint::BigUint::from(index % 4))]);
            spec.outputs.push(("tbl_rd".into(), rd.clone()));
            if index % 12 == 2 {
                // and it matters: a bad state needs a particular table entry
                let hit = Sh::Op(Op::Equal, [0, 0], vec![rd, Sh::Lit(3, num_bigint::BigUint::from(5u32))]);
                if let Some(b) = spec.bads.first().cloned() {
                    spec.bads[0] = Sh::Op(Op::And, [0, 0], vec![b, hit]);
                }
            }
        }
        if index % 11 == 5 {
            sysgen::input_bad_state_constraint(&mut spec, index / 11, false);
        }
        spec
    }
}

/// solver seeds are passed through PATH shims named `z3` / `cvc5` that exec the real binaries
/// with extra seed arguments (SmtLibSolver's fields are private constants)
pub fn install_shims(solver_seed: u64) -> Result<String, String> {
    let dir = crate::report::verif_root().join(".build").join("shims").join(format!("seed{solver_seed}"));
    std::fs::create_dir_all(&dir).map_err(|e| e.to_string())?;
    let z3 = format!("#!/bin/sh\nexec /usr/bin/z3 \"$@\" smt.random_seed={solver_seed} sat.random_seed={solver_seed}\n");
    let cvc5_real = which("cvc5").ok_or("cvc5 not found")?;
    let cvc5 = format!("#!/bin/sh\nexec {cvc5_real} --seed={solver_seed} \"$@\"\n");
    for (n, body) in [("z3", z3), ("cvc5", cvc5)] {
        let p = dir.join(n);
        std::fs::write(&p, body).map_err(|e| e.to_string())?;
        use std::os::unix::fs::PermissionsExt;
        std::fs::set_permissions(&p, std::fs::Permissions::from_mode(0o755)).map_err(|e| e.to_string())?;
    }
    Ok(dir.display().to_string())
}

fn which(name: &str) -> Option<String> {
    let path = std::env::var("PVERIF_ORIG_PATH").or_else(|_| std::env::var("PATH")).ok()?;
    for d in path.split(':') {
        let p = std::path::Path::new(d).join(name);
        if p.is_file() && !d.contains("/shims/") {
            return Some(p.display().to_string());
        }
    }
    None
}

pub fn with_solver_seed<T>(solver_seed: u64, f: impl FnOnce() -> T) -> Result<T, String> {
    let orig = std::env::var("PVERIF_ORIG_PATH").or_else(|_| std::env::var("PATH")).unwrap_or_default();
    let dir = install_shims(solver_seed)?;
    // SAFETY: called while no other thread of this process reads or writes the environment
    unsafe {
        std::env::set_var("PVERIF_ORIG_PATH", &orig);
        std::env::set_var("PATH", format!("{dir}:{orig}"));
    }
    let r = f();
    unsafe {
        std::env::set_var("PATH", &orig);
    }
    Ok(r)
}

pub fn run_pdr(spec: &SysSpec, profile: Profile, disable_cores: bool, secs: u64) -> c02::RunOut {
    let spec = spec.clone();
    let r = with_timeout(Duration::from_secs(secs), move || {
        let mut ctx = Context::default();
        let sys = spec.build(&mut ctx);
        let res = crate::panics::guarded(|| {
            let mut smt = live::start(profile).map_err(|e| format!("start: {e}"))?;
            pdr(&mut ctx, &mut smt, &sys, disable_cores).map_err(|e| format!("{e:?}"))
        });
        match res {
            Ok(Ok(ModelCheckResult::Success)) => c02::RunOut { verdict: Verdict::Success, witness: None },
            Ok(Ok(ModelCheckResult::Unknown)) => c02::RunOut { verdict: Verdict::Unknown, witness: None },
            Ok(Ok(ModelCheckResult::Fail(w))) => {
                let k = w.inputs.len().saturating_sub(1);
                c02::RunOut { verdict: Verdict::Fail(k), witness: Some((w, ctx, sys)) }
            }
            Ok(Err(e)) => c02::RunOut { verdict: Verdict::Err(e.chars().take(300).collect()), witness: None },
            Err((loc, msg)) => c02::RunOut { verdict: Verdict::Panic(format!("{loc}: {}", msg.chars().take(200).collect::<String>())), witness: None },
        }
    });
    r.unwrap_or_else(|| {
        live::kill_stray_solvers((secs as f64) - 5.0);
        c02::RunOut { verdict: Verdict::Hang, witness: None }
    })
}

fn judge(rep: &mut Report, p: &mut Proc, spec: &SysSpec, index: u64, solver_seed: u64, engine: &str, cfg_name: &str, out: c02::RunOut, expect_fail_at: usize) {
    let Some((w, ctx, sys)) = out.witness else {
        // verdict mismatches are C02's / C10's business; here only witnesses are judged
        if expect_fail_at == usize::MAX {
            rep.count("runs_without_witness_on_safe_systems", 1);
            return;
        }
        rep.count("failing_runs_without_witness", 1);
        if rep.inconclusive.len() < 10 {
            rep.inconclusive.push(json!({"system": index, "engine": engine, "config": cfg_name, "verdict": out.verdict.show()}));
        }
        return;
    };
    rep.count("obligations", 1);
    rep.count("witnesses", 1);
    let chk = witness::validate(&ctx, &sys, &w, p);
    rep.count("witness_queries", chk.queries);
    if !chk.inconclusive.is_empty() {
        rep.inconc(json!({"system": index, "engine": engine, "why": chk.inconclusive}));
        return;
    }
    let mut problems = chk.problems;
    // bmc reports the first failing depth; the witness length must be that depth + 1
    if engine == "bmc" && expect_fail_at != usize::MAX && w.inputs.len() != expect_fail_at + 1 && problems.is_empty() {
        problems.push(witness::WitnessProblem { kind: "length".into(), detail: format!("witness has {} steps, the first reachable bad state is at depth {expect_fail_at}", w.inputs.len()) });
    }
    if problems.is_empty() {
        rep.count("discharged", 1);
        if index % 61 == 0 && solver_seed == 1 {
            rep.sample(json!({"system": spec.show(), "engine": engine, "config": cfg_name, "witness": witness::show_witness(&w), "q1": "sat", "q2": "unsat"}), 8);
        }
        return;
    }
    rep.count("disagreements_checked", 1);
    let replay2 = witness::interpreter_replay(&ctx, &sys, &w);
    let kind = problems[0].kind.clone();
    rep.violation(
        Role::new(SITE, engine, &kind),
        format!(
            "system #{index} ({}) [{engine} {cfg_name}, solver seed {solver_seed}]: witness is not valid: {}",
            spec.pattern,
            problems.iter().map(|p| format!("{}: {}", p.kind, p.detail)).collect::<Vec<_>>().join(" | ")
        ),
        json!({"system": {"index": index, "text": spec.show()}, "engine": engine, "config": cfg_name, "solver_seed": solver_seed, "witness": witness::show_witness(&w),
            "interpreter_replay": replay2, "q1": chk.q1}),
    );
}

fn check_system(rep: &mut Report, seed: u64, index: u64, solver_seed: u64, tier: Tier, p: &mut Proc) {
    let spec = spec_for(seed, index);
    let probe = spec.pattern == "operator-probe";
    let kmax = if probe { 2 } else { tier.pick(5usize, 9usize) };
    let oracle = {
        let mut ctx = Context::default();
        let sys = spec.build(&mut ctx);
        live::reach_oracle(&ctx, &sys, kmax, p)
    };
    let Ok(oracle) = oracle else { return };
    let expected = c02::expected_verdict(&oracle, kmax);
    let (depth, failing) = match expected {
        Some(Verdict::Fail(d)) => (d, true),
        Some(Verdict::Success) => (usize::MAX, false),
        _ => return,
    };
    rep.count("programs", 1);
    if !failing {
        // a witness for a system without reachable bad state can only be wrong: still run the checkers
        rep.count("systems_not_failing_within_bound", 1);
    }
    let nonlit = c02::nonliteral_const_array(&spec);
    for (pi, profile) in PROFILES.iter().enumerate() {
        if profile.solver == "cvc5" && nonlit {
            continue;
        }
        if !failing && pi % 2 == 1 {
            continue;
        }
        for individually in [false, true] {
            let out = c02::run_bmc(&spec, *profile, individually, false, false, kmax as u64, true);
            judge(rep, p, &spec, index, solver_seed, "bmc", &format!("{};{}", profile.name(), if individually { "individual" } else { "joint" }), out, depth);
        }
    }
    // pdr (bit-vector systems only: array states are todo!() in pdr)
    let bv_only = spec.states.iter().all(|s| matches!(s.ty, crate::refsmt::Ty::BV(_)));
    if bv_only && !probe {
        let out = run_pdr(&spec, PROFILES[0], index % 2 == 0, 60);
        judge(rep, p, &spec, index, solver_seed, "pdr", &format!("z3/check-sat-assuming;cores={}", index % 2 != 0), out, depth);
    }
}

pub fn run(tier: Tier, seed: u64, replay: Option<serde_json::Value>) -> i32 {
    let mut rep = Report::new("C03", tier, seed, "translation_validation");
    let n = tier.pick(200u64, 800u64);
    let mut indices: Vec<u64> = (0..n).collect();
    let mut solver_seeds: Vec<u64> = tier.pick(vec![1, 2], vec![1, 2, 3]);
    for pi in 0..c02::probe_count() {
        if pi % 2 == 0 || pi % 8 == 1 {
            indices.push(c02::PROBE_BASE + pi);
            if tier == Tier::Thorough {
                indices.push(c02::PROBE_BASE + 1000 + pi);
            }
        }
    }
    if let Some(r) = &replay {
        rep.write_files = false;
        indices = r["replay"]["system"]["index"].as_u64().map(|i| vec![i]).unwrap_or_default();
        solver_seeds = vec![r["replay"]["solver_seed"].as_u64().unwrap_or(1)];
    }
    for ss in solver_seeds.iter() {
        let part = with_solver_seed(*ss, || {
            let parts: Vec<Report> = indices
                .par_chunks(8)
                .map(|chunk| {
                    let mut r = Report::new("C03", tier, seed, "translation_validation");
                    let mut p = Proc::new(Which::Z3New, 20_000);
                    for &i in chunk {
                        // quick tier: the second solver seed on every other system
                        if *ss > 1 && tier == Tier::Quick && (i % 2 == 1 || i >= c02::PROBE_BASE) {
                            continue;
                        }
                        check_system(&mut r, seed, i, *ss, tier, &mut p);
                    }
                    r.count("solver_time_ms", p.solver_time.as_millis() as u64);
                    r.count("solver_queries", p.queries);
                    r
                })
                .collect();
            parts
        });
        match part {
            Ok(parts) => {
                for p in parts {
                    rep.merge(p);
                }
            }
            Err(e) => rep.undecided.push(format!("cannot install solver shims: {e}")),
        }
    }
    live::kill_stray_solvers(0.0);
    rep.extra.insert("bounds".into(), json!({"generated_systems": n, "operator_probes": "the probes of C02 (complete function tables; safe variants must not produce a witness, unsafe variants must produce a valid one)", "failing_within": tier.pick(5, 9), "profiles": PROFILES.iter().map(|p| p.name()).collect::<Vec<_>>(), "modes": ["joint", "individual"],
        "pdr": "z3/check-sat-assuming, generalisation on/off alternating, bit-vector systems", "solver_seeds": solver_seeds,
        "every_model_quantifier": "enumerated: 2 solvers x seeds (z3 and cvc5 choose different models and print arrays differently)"}));
    rep.extra.insert("functions_encoded".into(), json!(["mc::bmc get_witness", "mc::get_smt_value", "SmtLibSolverCtx::get_value / parse_get_value_response", "mc::pdr BMC fall-back"]));
    rep.extra.insert("outside_claim".into(), json!(["models other than those the installed solvers return under the listed seeds", "systems beyond the grammar's size", "later values of states that keep an init but have no next (the witness format has no place for them; only Q1 is required there)"]));
    rep.assumptions = vec!["RefUnroll states the btor2 execution semantics".into(), "Q1 sat + Q2 unsat <=> the pinned values determine an execution that satisfies init, all constraints, and hits exactly the listed bad states".into()];
    rep.finish()
}
