//! C09 — writing a system as btor2 and reading it back preserves it.
//! Real code: btor2::serialize_to_str, btor2::parse_str.

use crate::miter::Portfolio;
use crate::refsmt::RefEnc;
use crate::report::{Report, Role, Tier};
use crate::solver::{Proc, Which};
use crate::syscmp::{self, CmpCfg};
use crate::sysgen::{self, GenCfg};
use patronus::btor2;
use patronus::expr::{Context, ExprRef};
use patronus::system::TransitionSystem;
use rayon::prelude::*;
use serde_json::json;
use std::collections::HashMap;

pub const SITE: &str = "btor2::serialize_to_str -> btor2::parse_str";

pub fn gen_cfg() -> GenCfg {
    GenCfg { max_states: 3, max_inputs: 3, max_width: 9, arrays: true, max_depth: 3, div: true, max_state_bits: 64, total: false }
}

pub fn spec_for(seed: u64, index: u64) -> sysgen::SysSpec {
    let mut spec = sysgen::generate(seed, "C09", index, &gen_cfg());
    // plain states (neither init nor next) are by design turned into inputs by the reader: outside the claim
    for (i, st) in spec.states.iter_mut().enumerate() {
        if st.init.is_none() && st.next.is_none() {
            if let crate::refsmt::Ty::BV(w) = st.ty {
                st.init = Some(crate::shapes::Sh::Lit(w, num_bigint::BigUint::from((i as u32 + 1) % (1u32 << w.min(16)))));
            } else {
                st.next = Some(crate::shapes::Sh::Sym(sysgen::STATE_BASE + i as u8, st.ty));
            }
        }
    }
    // literal shapes zero / one / ones / other in outputs
    if index % 5 == 0 {
        for (k, v) in [0u32, 1, 255, 90].iter().enumerate() {
            spec.outputs.push((format!("lit{k}"), crate::shapes::Sh::Lit(8, num_bigint::BigUint::from(*v))));
        }
    }
    if index % 4 == 1 {
        for (i, a) in spec.anon_inputs.iter_mut().enumerate() {
            *a = i % 2 == 0;
        }
    }
    // array-typed inputs / outputs / named nodes (aliases of array signals under other names)
    if index % 6 == 2 {
        sysgen::add_array_io(&mut spec, index / 6);
    }
    // literals and signals wider than one machine word
    if index % 7 == 3 {
        sysgen::add_wide_signals(&mut spec, index / 7);
    }
    spec
}

/// btor2 texts with the naming situations that only come out of the reader
fn name_templates() -> Vec<String> {
    let mut v = vec![];
    for (sort, zero) in [("sort bitvec 4", "zero 1"), ("sort bitvec 1", "zero 1")] {
        // named state driven directly to an output of another name / the same name / an unnamed output
        for out in ["output 3 q", "output 3 cnt", "output 3"] {
            v.push(format!("1 {sort}\n2 input 1 d\n3 state 1 cnt\n4 {zero}\n5 init 1 3 4\n6 next 1 3 2\n7 {out}\n"));
            // the same, the state line anonymous and named by a trailing alias line
            v.push(format!("1 {sort}\n2 input 1 d\n3 state 1\n4 {zero}\n5 init 1 3 4\n6 next 1 3 2\n7 {out}\n8 uext 1 3 0 cnt\n"));
        }
        // input driven directly to an output of another name
        v.push(format!("1 {sort}\n2 input 1 a\n3 state 1 r\n4 next 1 3 2\n5 output 2 a_out\n6 output 3 r_out\n"));
    }
    // 1-bit named state that is directly a bad state and an output
    v.push("1 sort bitvec 1\n2 input 1 d\n3 state 1 busy\n4 zero 1\n5 init 1 3 4\n6 next 1 3 2\n7 output 3 q\n8 bad 3\n".to_string());
    v.push("1 sort bitvec 1\n2 input 1 d\n3 state 1\n4 zero 1\n5 init 1 3 4\n6 next 1 3 2\n7 output 3 q\n8 bad 3\n9 uext 1 3 0 busy\n".to_string());
    // memories: array state exported under another name / the same name / unnamed, named directly or by alias
    for out in ["output 4 mem_out", "output 4 mem", "output 4"] {
        v.push(format!("1 sort bitvec 2\n2 sort bitvec 8\n3 sort array 1 2\n4 state 3 mem\n5 input 1 addr\n6 input 2 data\n7 write 3 4 5 6\n8 next 3 4 7\n9 {out}\n10 read 2 4 5\n11 output 10 rd\n"));
        v.push(format!("1 sort bitvec 2\n2 sort bitvec 8\n3 sort array 1 2\n4 state 3\n5 input 1 addr\n6 input 2 data\n7 write 3 4 5 6\n8 next 3 4 7\n9 {out}\n10 read 2 4 5\n11 output 10 rd\n12 uext 3 4 0 mem\n"));
    }
    v
}

fn is_autogen(name: &str) -> bool {
    for p in ["_constraint", "_output", "_bad", "_input", "_state"] {
        if let Some(rest) = name.strip_prefix(p) {
            if rest.is_empty() || (rest.starts_with('_') && rest.len() > 1 && rest[1..].chars().all(|c| c.is_ascii_digit())) {
                return true;
            }
        }
    }
    false
}

fn interface_names(ctx: &Context, sys: &TransitionSystem) -> Vec<(String, String)> {
    let mut v = vec![];
    for (i, x) in sys.inputs.iter().enumerate() {
        v.push((format!("input[{i}]"), ctx.get_symbol_name(*x).unwrap_or("").to_string()));
    }
    for (i, s) in sys.states.iter().enumerate() {
        v.push((format!("state[{i}]"), ctx.get_symbol_name(s.symbol).unwrap_or("").to_string()));
    }
    for (i, o) in sys.outputs.iter().enumerate() {
        v.push((format!("output[{i}]"), ctx[o.name].clone()));
    }
    v
}

/// one write/read cycle; Err = (kind, detail)
fn cycle(ctx: &mut Context, sys: &TransitionSystem) -> Result<(String, TransitionSystem), (String, String)> {
    let text = match crate::panics::guarded(|| btor2::serialize_to_str(ctx, sys)) {
        Ok(t) => t,
        Err((loc, msg)) => return Err(("writer-rejects".into(), format!("{loc}: {msg}"))),
    };
    match crate::panics::guarded(|| btor2::parse_str(ctx, &text, Some(&sys.name))) {
        Ok(Some(s)) => Ok((text, s)),
        Ok(None) => Err(("reread-fails".into(), text)),
        Err((loc, msg)) => Err((format!("reread-panics@{loc}"), format!("{msg}\n{text}"))),
    }
}

fn check_system(rep: &mut Report, ctx: &mut Context, sys: &TransitionSystem, label: &str, replay: serde_json::Value, fast: &mut Proc, hard: &mut Portfolio, soft: bool, parsed_original: bool) {
    crate::panics::set_context(format!("system {label}"));
    rep.count("programs", 1);
    let (text, sys2) = match cycle(ctx, sys) {
        Ok(x) => x,
        Err((kind, detail)) if kind == "writer-rejects" => {
            rep.count("systems_the_writer_does_not_accept", 1);
            if rep.get("systems_the_writer_does_not_accept") < 4 {
                rep.sample(json!({"system": label, "writer_rejects": detail}), 30);
            }
            return;
        }
        Err((kind, detail)) => {
            rep.count("obligations", 1);
            rep.violation(Role::new(SITE, "system", &kind), format!("{label}: the written text is not read back ({kind})"), json!({"system": replay, "detail": detail}));
            return;
        }
    };
    // interface: positional, by type
    rep.count("obligations", 1);
    let tys = |ctx: &Context, v: Vec<ExprRef>| -> Vec<Option<crate::refsmt::Ty>> { v.into_iter().map(|e| RefEnc::type_of(ctx, e).ok()).collect() };
    let in1 = tys(ctx, sys.inputs.clone());
    let in2 = tys(ctx, sys2.inputs.clone());
    let st1 = tys(ctx, sys.states.iter().map(|s| s.symbol).collect());
    let st2 = tys(ctx, sys2.states.iter().map(|s| s.symbol).collect());
    if in1 != in2 || st1 != st2 {
        rep.violation(Role::new(SITE, "system", "interface"), format!("{label}: inputs/states differ after write/read: inputs {in1:?} -> {in2:?}, states {st1:?} -> {st2:?}"), json!({"system": replay, "text": text}));
        return;
    }
    let pairs = match syscmp::pair_functions(sys, &sys2) {
        Ok(p) => p,
        Err(s) => {
            rep.violation(Role::new(SITE, "system", "structure"), format!("{label}: shape differs after write/read: {s}"), json!({"system": replay, "text": text}));
            return;
        }
    };
    rep.count("discharged", 1);
    // positional linking of re-read symbols to the originals
    let mut sym_map = HashMap::new();
    let mut force = vec![];
    let mut link = |a: ExprRef, b: ExprRef| {
        if a != b {
            sym_map.insert(b, format!("s!{}", usize::from(a)));
            force.push(a);
        }
    };
    for (a, b) in sys.inputs.iter().zip(sys2.inputs.iter()) {
        link(*a, *b);
    }
    for (a, b) in sys.states.iter().zip(sys2.states.iter()) {
        link(a.symbol, b.symbol);
    }
    if !sym_map.is_empty() {
        rep.count("systems_needing_positional_linking", 1);
    }
    let cfg = CmpCfg { site: SITE, label: label.to_string(), sym_map, force_decl: force, soft_inconclusive: soft, replay: json!({"system": replay, "text": text}) };
    let before = rep.violations.len();
    syscmp::decide_pairs(rep, ctx, fast, hard, &pairs, &cfg);
    if rep.violations.len() != before {
        return;
    }
    // name clause, first cycle: when the original itself came out of the reader (shipped files, text templates),
    // its explicit, pairwise distinct names must already survive this cycle
    if parsed_original {
        rep.count("obligations", 1);
        let n1 = interface_names(ctx, sys);
        let n2 = interface_names(ctx, &sys2);
        let mut counts: HashMap<&str, usize> = HashMap::new();
        for (_, n) in n1.iter() {
            *counts.entry(n.as_str()).or_default() += 1;
        }
        let mut bad = vec![];
        let mut kind = "";
        if n1.len() == n2.len() {
            for ((w, a), (_, b)) in n1.iter().zip(n2.iter()) {
                if !a.is_empty() && !is_autogen(a) && counts[a.as_str()] == 1 && a != b {
                    if kind.is_empty() {
                        kind = if w.starts_with("state") { "state" } else if w.starts_with("input") { "input" } else { "output" };
                    }
                    bad.push(format!("{w}: `{a}` became `{b}`"));
                }
            }
        }
        if bad.is_empty() {
            rep.count("discharged", 1);
            rep.count("name_clause_first_cycle_checked", 1);
        } else {
            rep.violation(Role::new(SITE, "system", &format!("names;parsed-original;{kind}")), format!("{label}: names of a parsed system do not survive a write/read cycle: {}", bad.join("; ")), json!({"system": replay, "first_text": text}));
            return;
        }
    }
    // name clause: explicit, pairwise distinct names of the re-read system survive a further cycle
    rep.count("obligations", 1);
    match cycle(ctx, &sys2) {
        Err((kind, detail)) => {
            rep.violation(Role::new(SITE, "system", &format!("second-cycle-{kind}")), format!("{label}: the re-read system cannot be written/read again ({kind})"), json!({"system": replay, "detail": detail, "text": text}));
        }
        Ok((text2, sys3)) => {
            let n2 = interface_names(ctx, &sys2);
            let n3 = interface_names(ctx, &sys3);
            let mut counts: HashMap<&str, usize> = HashMap::new();
            for (_, n) in n2.iter() {
                *counts.entry(n.as_str()).or_default() += 1;
            }
            let mut bad = vec![];
            let mut class = String::new();
            if n2.len() != n3.len() {
                bad.push(format!("{} interface signals became {}", n2.len(), n3.len()));
            } else {
                for ((w, a), (_, b)) in n2.iter().zip(n3.iter()) {
                    let explicit = !a.is_empty() && !is_autogen(a) && counts[a.as_str()] == 1;
                    if explicit && a != b {
                        if class.is_empty() {
                            // naming situation of the first drifting signal (role key)
                            let sym: Option<ExprRef> = if let Some(i) = w.strip_prefix("state[") {
                                i.trim_end_matches(']').parse::<usize>().ok().map(|i| sys2.states[i].symbol)
                            } else if let Some(i) = w.strip_prefix("input[") {
                                i.trim_end_matches(']').parse::<usize>().ok().map(|i| sys2.inputs[i])
                            } else {
                                None
                            };
                            class = match sym {
                                Some(sy) => {
                                    let outs: Vec<&patronus::system::Output> = sys2.outputs.iter().filter(|o| o.expr == sy).collect();
                                    let out = if outs.is_empty() { "none" } else if outs.iter().any(|o| ctx[o.name] == *a) { "same-name" } else { "other-name" };
                                    let nb = sys2.bad_states.iter().filter(|b| **b == sy).count();
                                    let nc = sys2.constraints.iter().filter(|b| **b == sy).count();
                                    format!("{};direct-output={out};direct-bad-or-constraint-labels{}", w.split('[').next().unwrap(), match nb + nc { 0 => "=0", 1 => "=1", _ => ">=2" })
                                }
                                None => "output-label".to_string(),
                            };
                        }
                        bad.push(format!("{w}: `{a}` became `{b}`"));
                    }
                }
            }
            if bad.is_empty() {
                rep.count("discharged", 1);
                rep.count("name_clause_checked", 1);
            } else {
                rep.violation(Role::new(SITE, "system", &format!("names;{class}")), format!("{label}: names do not survive a further write/read cycle: {}", bad.join("; ")), json!({"system": replay, "first_text": text, "second_text": text2}));
            }
        }
    }
}

pub fn run(tier: Tier, seed: u64, replay: Option<serde_json::Value>) -> i32 {
    let mut rep = Report::new("C09", tier, seed, "translation_validation");
    let n = tier.pick(1500u64, 20000u64);
    let mut indices: Vec<u64> = (0..n).collect();
    let mut files = syscmp::shipped_files(true);
    if let Some(r) = &replay {
        rep.write_files = false;
        let sysr = if r["replay"]["system"]["system"].is_object() { &r["replay"]["system"]["system"] } else { &r["replay"]["system"] };
        indices = sysr["index"].as_u64().map(|i| vec![i]).unwrap_or_default();
        files = sysr["file"].as_str().map(|f| vec![f.into()]).unwrap_or_default();
    }
    let timeout = tier.pick(20_000u64, 60_000u64);
    let chunks: Vec<&[u64]> = indices.chunks(50).collect();
    let parts: Vec<Report> = chunks
        .par_iter()
        .map(|chunk| {
            let mut r = Report::new("C09", tier, seed, "translation_validation");
            let mut fast = Proc::new(Which::Z3New, 3000);
            let mut hard = Portfolio::new(timeout);
            for &i in chunk.iter() {
                let spec = spec_for(seed, i);
                let mut ctx = Context::default();
                let sys = spec.build(&mut ctx);
                if i % 311 == 0 {
                    r.sample(json!({"generated_system": spec.show(), "btor2": crate::panics::guarded(|| btor2::serialize_to_str(&ctx, &sys)).unwrap_or_default()}), 4);
                }
                check_system(&mut r, &mut ctx, &sys, &format!("generated system #{i} ({})", spec.pattern), json!({"index": i, "seed": seed, "text": spec.show()}), &mut fast, &mut hard, false, false);
            }
            r.count("solver_time_ms", fast.solver_time.as_millis() as u64 + hard.stats().0);
            r.count("solver_queries", fast.queries + hard.stats().1);
            r
        })
        .collect();
    for p in parts {
        rep.merge(p);
    }
    let fparts: Vec<Report> = files
        .par_iter()
        .map(|f| {
            let mut r = Report::new("C09", tier, seed, "translation_validation");
            let mut fast = Proc::new(Which::Z3New, 3000);
            let mut hard = Portfolio::new(timeout);
            let mut ctx = Context::default();
            match crate::panics::guarded(|| btor2::parse_file_with_ctx(f, &mut ctx)) {
                Ok(Some(sys)) => {
                    r.count("shipped_files", 1);
                    check_system(&mut r, &mut ctx, &sys, &format!("{}", f.strip_prefix(crate::report::repo_root()).unwrap_or(f).display()), json!({"file": f.display().to_string()}), &mut fast, &mut hard, true, true);
                }
                _ => r.count("shipped_files_not_readable", 1),
            }
            r.count("solver_time_ms", fast.solver_time.as_millis() as u64 + hard.stats().0);
            r.count("solver_queries", fast.queries + hard.stats().1);
            r
        })
        .collect();
    for p in fparts {
        rep.merge(p);
    }
    // text templates: naming situations only the reader produces (anonymous state / input lines named by a
    // trailing alias line, states driven directly to named and unnamed outputs, array-typed signals)
    if replay.is_none() {
        let mut r = Report::new("C09", tier, seed, "translation_validation");
        let mut fast = Proc::new(Which::Z3New, 3000);
        let mut hard = Portfolio::new(timeout);
        for (k, txt) in name_templates().iter().enumerate() {
            let mut ctx = Context::default();
            match crate::panics::guarded(|| btor2::parse_str(&mut ctx, txt, Some("tmpl"))) {
                Ok(Some(sys)) => {
                    r.count("name_templates", 1);
                    check_system(&mut r, &mut ctx, &sys, &format!("name template #{k}"), json!({"template": k, "text": txt}), &mut fast, &mut hard, false, true);
                }
                _ => r.undecided.push(format!("name template #{k} is not read by the reader")),
            }
        }
        rep.merge(r);
    }
    rep.extra.insert("bounds".into(), json!({"generated_systems": n, "patterns": sysgen::PATTERNS, "shipped_designs": "all inputs/**/*.btor{,2} the reader accepts", "per_query_cap_ms": timeout}));
    rep.extra.insert("functions_encoded".into(), json!(["btor2::serialize_to_str", "btor2::parse_str"]));
    rep.extra.insert("outside_claim".into(), json!(["states with neither init nor next (turned into inputs by the reader by design)", "systems the writer rejects (non-literal array constants outside init position)", "undecided roots of shipped designs"]));
    rep.assumptions = vec!["RefSmt is the SMT-LIB reading of Expr".into(), "positional matching of inputs/states is the intended correspondence".into()];
    rep.finish()
}
