//! C11 — system-level transformations preserve observable behaviour.
//! Real code: system::transform::{simplify_expressions, replace_anonymous_inputs_with_zero,
//! do_transform}, TransitionSystem::update_expressions.

use crate::miter::Portfolio;
use crate::refsmt::{RefEnc, Ty, sort};
use crate::report::{Report, Role, Tier};
use crate::solver::{Proc, Which};
use crate::syscmp::{self, CmpCfg};
use crate::sysgen::{self, GenCfg};
use patronus::expr::{Context, ExprRef};
use patronus::system::TransitionSystem;
use patronus::system::transform::{replace_anonymous_inputs_with_zero, simplify_expressions};
use rayon::prelude::*;
use serde_json::json;
use std::collections::HashMap;

pub const SITE_SIMP: &str = "system::transform::simplify_expressions";
pub const SITE_ANON: &str = "system::transform::replace_anonymous_inputs_with_zero";

pub fn gen_cfg() -> GenCfg {
    GenCfg { max_states: 3, max_inputs: 3, max_width: 9, arrays: true, max_depth: 3, div: true, max_state_bits: 64, total: false }
}

fn zero_term(t: Ty) -> String {
    match t {
        Ty::BV(w) => format!("#b{}", "0".repeat(w as usize)),
        Ty::Arr(_, d) => format!("((as const {}) #b{})", sort(t), "0".repeat(d as usize)),
    }
}

fn check_system(rep: &mut Report, ctx: &mut Context, sys: &TransitionSystem, label: &str, replay: serde_json::Value, fast: &mut Proc, hard: &mut Portfolio, soft: bool) {
    crate::panics::set_context(format!("system {label}"));
    // --- simplify_expressions
    let before = sys.clone();
    let mut after = sys.clone();
    rep.count("programs", 1);
    match crate::panics::guarded(|| {
        let _ = simplify_expressions(ctx, &mut after);
    }) {
        Err((loc, msg)) => {
            let known_dep = loc.starts_with("baa-");
            rep.violation(Role::new(SITE_SIMP, "system", &format!("panic@{loc}")), format!("{label}: simplify_expressions panicked: {msg}"), json!({"system": replay, "dependency_panic": known_dep}));
        }
        Ok(()) => {
            let mut structural: Option<String> = None;
            if before.inputs != after.inputs {
                structural = Some("inputs changed".into());
            }
            if before.states.iter().map(|s| s.symbol).collect::<Vec<_>>() != after.states.iter().map(|s| s.symbol).collect::<Vec<_>>() {
                structural = Some("state symbols changed".into());
            }
            if before.outputs.iter().map(|o| o.name).collect::<Vec<_>>() != after.outputs.iter().map(|o| o.name).collect::<Vec<_>>() {
                structural = Some("output names changed".into());
            }
            match (structural, syscmp::pair_functions(&before, &after)) {
                (Some(s), _) | (None, Err(s)) => {
                    rep.count("obligations", 1);
                    rep.violation(Role::new(SITE_SIMP, "system", "structure"), format!("{label}: simplify_expressions changed the interface: {s}"), json!({"system": replay}));
                }
                (None, Ok(pairs)) => {
                    let cfg = CmpCfg { site: SITE_SIMP, label: label.to_string(), sym_map: HashMap::new(), force_decl: vec![], soft_inconclusive: soft, replay: replay.clone() };
                    syscmp::decide_pairs(rep, ctx, fast, hard, &pairs, &cfg);
                }
            }
        }
    }
    // --- replace_anonymous_inputs_with_zero
    let anon: Vec<ExprRef> = before
        .inputs
        .iter()
        .copied()
        .filter(|i| {
            let n = ctx.get_symbol_name(*i).unwrap_or("");
            n.starts_with("_input") || n.starts_with("_state")
        })
        .collect();
    if anon.is_empty() {
        return;
    }
    rep.count("programs", 1);
    let mut after = sys.clone();
    match crate::panics::guarded(|| {
        let _ = replace_anonymous_inputs_with_zero(ctx, &mut after);
    }) {
        Err((loc, msg)) => {
            rep.violation(Role::new(SITE_ANON, "system", &format!("panic@{loc}")), format!("{label}: replace_anonymous_inputs_with_zero panicked: {msg}"), json!({"system": replay}));
        }
        Ok(()) => {
            let expect_inputs: Vec<ExprRef> = before.inputs.iter().copied().filter(|i| !anon.contains(i)).collect();
            rep.count("obligations", 1);
            if after.inputs != expect_inputs {
                rep.violation(Role::new(SITE_ANON, "system", "inputs"), format!("{label}: remaining inputs are not the named inputs in order"), json!({"system": replay}));
                return;
            }
            // removed inputs must not occur anywhere
            let syms = syscmp::symbols_of(ctx, &syscmp::all_roots(&after));
            if let Some(a) = anon.iter().find(|a| syms.contains(a)) {
                rep.violation(Role::new(SITE_ANON, "system", "removed-input-still-used"), format!("{label}: removed input {} still occurs in the system", ctx.get_symbol_name(*a).unwrap_or("?")), json!({"system": replay}));
                return;
            }
            if before.states.iter().map(|s| s.symbol).collect::<Vec<_>>() != after.states.iter().map(|s| s.symbol).collect::<Vec<_>>() {
                rep.violation(Role::new(SITE_ANON, "system", "structure"), format!("{label}: state symbols changed"), json!({"system": replay}));
                return;
            }
            rep.count("discharged", 1);
            match syscmp::pair_functions(&before, &after) {
                Err(s) => {
                    rep.count("obligations", 1);
                    rep.violation(Role::new(SITE_ANON, "system", "structure"), format!("{label}: interface changed: {s}"), json!({"system": replay}));
                }
                Ok(pairs) => {
                    let mut sym_map = HashMap::new();
                    for a in anon.iter() {
                        if let Ok(t) = RefEnc::type_of(ctx, *a) {
                            sym_map.insert(*a, zero_term(t));
                        }
                    }
                    let cfg = CmpCfg { site: SITE_ANON, label: label.to_string(), sym_map, force_decl: vec![], soft_inconclusive: soft, replay };
                    syscmp::decide_pairs(rep, ctx, fast, hard, &pairs, &cfg);
                }
            }
        }
    }
}

pub fn spec_for(seed: u64, index: u64) -> sysgen::SysSpec {
    let mut spec = sysgen::generate(seed, "C11", index, &gen_cfg());
    // every third system: make some inputs anonymous (yosys-style names)
    if index % 3 != 2 {
        for (i, a) in spec.anon_inputs.iter_mut().enumerate() {
            if (index as usize + i) % 2 == 0 {
                *a = true;
            }
        }
    }
    // array-typed inputs / outputs / named array nodes
    if index % 6 == 4 {
        sysgen::add_array_io(&mut spec, index / 6);
    }
    if index % 7 == 3 {
        sysgen::add_wide_signals(&mut spec, index / 7);
    }
    // constraints and bad states that the simplifier resolves completely (to true and to false), and a
    // register nobody observes that is fed by an (anonymous) input of its own
    if index % 5 == 1 {
        sysgen::add_trivial_properties(&mut spec, index / 5);
    }
    spec
}

pub fn run(tier: Tier, seed: u64, replay: Option<serde_json::Value>) -> i32 {
    let mut rep = Report::new("C11", tier, seed, "translation_validation");
    let n = tier.pick(1500u64, 20000u64);
    let mut indices: Vec<u64> = (0..n).collect();
    let mut files = syscmp::shipped_files(tier == Tier::Thorough);
    if let Some(r) = &replay {
        rep.write_files = false;
        indices = r["replay"]["system"]["index"].as_u64().map(|i| vec![i]).unwrap_or_default();
        files = r["replay"]["system"]["file"].as_str().map(|f| vec![f.into()]).unwrap_or_default();
    }
    let timeout = tier.pick(20_000u64, 60_000u64);
    let chunks: Vec<&[u64]> = indices.chunks(50).collect();
    let parts: Vec<Report> = chunks
        .par_iter()
        .map(|chunk| {
            let mut r = Report::new("C11", tier, seed, "translation_validation");
            let mut fast = Proc::new(Which::Z3New, 3000);
            let mut hard = Portfolio::new(timeout);
            for &i in chunk.iter() {
                let spec = spec_for(seed, i);
                let mut ctx = Context::default();
                let sys = spec.build(&mut ctx);
                if i % 211 == 0 {
                    r.sample(json!({"generated_system": spec.show()}), 4);
                }
                check_system(&mut r, &mut ctx, &sys, &format!("generated system #{i} ({})", spec.pattern), json!({"index": i, "seed": seed, "text": spec.show()}), &mut fast, &mut hard, false);
            }
            r.count("solver_time_ms", fast.solver_time.as_millis() as u64 + hard.stats().0);
            r.count("solver_queries", fast.queries + hard.stats().1);
            r
        })
        .collect();
    for p in parts {
        rep.merge(p);
    }
    // shipped designs
    let fparts: Vec<Report> = files
        .par_iter()
        .map(|f| {
            let mut r = Report::new("C11", tier, seed, "translation_validation");
            let mut fast = Proc::new(Which::Z3New, 3000);
            let mut hard = Portfolio::new(timeout);
            let mut ctx = Context::default();
            let parsed = crate::panics::guarded(|| patronus::btor2::parse_file_with_ctx(f, &mut ctx));
            match parsed {
                Ok(Some(sys)) => {
                    r.count("shipped_files", 1);
                    check_system(&mut r, &mut ctx, &sys, &format!("{}", f.strip_prefix(crate::report::repo_root()).unwrap_or(f).display()), json!({"file": f.display().to_string()}), &mut fast, &mut hard, true);
                }
                _ => r.count("shipped_files_not_readable", 1),
            }
            r.count("solver_time_ms", fast.solver_time.as_millis() as u64 + hard.stats().0);
            r.count("solver_queries", fast.queries + hard.stats().1);
            r
        })
        .collect();
    for p in fparts {
        rep.merge(p);
    }
    rep.extra.insert("bounds".into(), json!({"generated_systems": n, "patterns": sysgen::PATTERNS, "states": "1..3 (+1 array bv2->bv3)", "inputs": "0..3, widths 1..9",
        "shipped_designs": if tier == Tier::Thorough { "all inputs/**/*.btor{,2}" } else { "inputs/**/*.btor{,2} except repair/ and lakeroad/" }, "per_query_cap_ms": timeout}));
    rep.extra.insert("functions_encoded".into(), json!([SITE_SIMP, SITE_ANON, "system::transform::do_transform", "TransitionSystem::update_expressions"]));
    rep.extra.insert("outside_claim".into(), json!(["systems beyond the grammar's size", "undecided roots of shipped designs (listed under inconclusive_samples, not counted)"]));
    rep.assumptions = vec!["RefSmt is the SMT-LIB reading of Expr".into(), "function-wise equivalence over the same inputs/states implies equality of all executions (induction on steps)".into()];
    rep.finish()
}
