//! C08 — the btor2 reader gives every construct its btor2 meaning.
//! Real code: btor2::parse_str. Oracle: RefBtor, a line-by-line interpreter of the text.

use crate::miter::Portfolio;
use crate::refbtor::{RefBtor, S, ssort};
use crate::refsmt::{RefEnc, Ty};
use crate::report::{Report, Role, Tier};
use crate::rng::Rng;
use crate::solver::{Answer, Proc, Which};
use patronus::btor2;
use patronus::expr::{Context, ExprRef};
use patronus::system::TransitionSystem;
use rayon::prelude::*;
use serde_json::json;
use std::collections::HashMap;

pub const SITE: &str = "btor2::parse_str";

fn ty_of(s: &S) -> Ty {
    match s {
        S::BV(w) => Ty::BV(*w),
        S::Arr(i, d) => Ty::Arr(*i, *d),
    }
}

// ---------------------------------------------------------------------------------------------
// file builder

pub struct FileB {
    pub lines: Vec<String>,
    next_id: i64,
    sorts: HashMap<String, i64>,
}

impl FileB {
    pub fn new() -> Self {
        FileB { lines: vec![], next_id: 1, sorts: HashMap::new() }
    }
    pub fn sort(&mut self, s: &S) -> i64 {
        let key = format!("{s:?}");
        if let Some(id) = self.sorts.get(&key) {
            return *id;
        }
        let body = match s {
            S::BV(w) => format!("sort bitvec {w}"),
            S::Arr(i, d) => {
                let ii = self.sort(&S::BV(*i));
                let dd = self.sort(&S::BV(*d));
                format!("sort array {ii} {dd}")
            }
        };
        let id = self.line(&body);
        self.sorts.insert(key, id);
        id
    }
    pub fn line(&mut self, body: &str) -> i64 {
        let id = self.next_id;
        self.next_id += 1;
        self.lines.push(format!("{id} {body}"));
        id
    }
    pub fn text(&self) -> String {
        self.lines.join("\n") + "\n"
    }
}

#[derive(Clone, Copy, Debug, PartialEq)]
pub enum Kind {
    Input,
    State,
    Const(u8),
}

#[derive(Clone, Debug)]
pub struct OpCase {
    pub op: &'static str,
    pub args: Vec<S>,
    pub params: Vec<u32>,
    pub res: S,
}

pub const WIDTHS: [u32; 6] = [1, 2, 4, 8, 33, 65];

pub fn op_cases(w: u32) -> Vec<OpCase> {
    let bv = S::BV(w);
    let b1 = S::BV(1);
    let mut v = vec![];
    let mut add = |op: &'static str, args: Vec<S>, params: Vec<u32>, res: S| v.push(OpCase { op, args, params, res });
    for op in ["not", "neg"] {
        add(op, vec![bv.clone()], vec![], bv.clone());
    }
    for op in ["redand", "redor", "redxor"] {
        add(op, vec![bv.clone()], vec![], b1.clone());
    }
    for (hi, lo) in [(w - 1, 0), (w - 1, w - 1), (w / 2, 0), (0, 0), (w - 1, w / 2)] {
        add("slice", vec![bv.clone()], vec![hi, lo], S::BV(hi - lo + 1));
    }
    for by in [0u32, 1, 3] {
        add("uext", vec![bv.clone()], vec![by], S::BV(w + by));
        add("sext", vec![bv.clone()], vec![by], S::BV(w + by));
    }
    for op in ["and", "nand", "nor", "or", "xnor", "xor", "sll", "sra", "srl", "add", "mul", "sdiv", "udiv", "smod", "srem", "urem", "sub"] {
        add(op, vec![bv.clone(), bv.clone()], vec![], bv.clone());
    }
    for op in ["sgt", "ugt", "sgte", "ugte", "slt", "ult", "slte", "ulte", "eq", "neq"] {
        add(op, vec![bv.clone(), bv.clone()], vec![], b1.clone());
    }
    if w == 1 {
        add("iff", vec![b1.clone(), b1.clone()], vec![], b1.clone());
        add("implies", vec![b1.clone(), b1.clone()], vec![], b1.clone());
    }
    for w2 in [1u32, w, 3] {
        add("concat", vec![bv.clone(), S::BV(w2)], vec![], S::BV(w + w2));
    }
    add("ite", vec![b1.clone(), bv.clone(), bv.clone()], vec![], bv.clone());
    for (i, d) in [(1u32, 1u32), (2, 4), (2, w.min(33))] {
        let arr = S::Arr(i, d);
        if w == d || (i, d) == (1, 1) && w == 1 || (i, d) == (2, 4) && w == 4 {
            add("read", vec![arr.clone(), S::BV(i)], vec![], S::BV(d));
            add("write", vec![arr.clone(), S::BV(i), S::BV(d)], vec![], arr.clone());
            add("ite", vec![b1.clone(), arr.clone(), arr.clone()], vec![], arr.clone());
            add("eq", vec![arr.clone(), arr.clone()], vec![], b1.clone());
            add("neq", vec![arr.clone(), arr.clone()], vec![], b1.clone());
        }
    }
    v
}

fn const_line(f: &mut FileB, w: u32, flavour: u8, salt: u64) -> i64 {
    let s = f.sort(&S::BV(w));
    let ones = (num_bigint::BigUint::from(1u32) << w) - 1u32;
    let mid = num_bigint::BigUint::from(0x5au32 + salt as u32 % 7) & &ones;
    match flavour % 8 {
        0 => f.line(&format!("zero {s}")),
        1 => f.line(&format!("one {s}")),
        2 => f.line(&format!("ones {s}")),
        3 => f.line(&format!("const {s} {}", format!("{:0>w$}", mid.to_str_radix(2), w = w as usize))),
        4 => f.line(&format!("constd {s} {}", mid)),
        5 => f.line(&format!("constd {s} -{}", if w == 1 { 1u32.into() } else { (&mid % (num_bigint::BigUint::from(1u32) << (w - 1))) + 1u32 })),
        6 => {
            // hex with exactly ceil(w/4) digits, value fits
            let digits = w.div_ceil(4) as usize;
            f.line(&format!("consth {s} {:0>d$}", mid.to_str_radix(16), d = digits))
        }
        _ => f.line(&format!("const {s} {}", "1".to_string() + &"0".repeat(w as usize - 1))),
    }
}

fn operand(f: &mut FileB, s: &S, kind: Kind, name: &str, salt: u64, holds: &mut Vec<(i64, i64)>) -> i64 {
    let sid = f.sort(s);
    match (kind, s) {
        (Kind::Const(fl), S::BV(w)) => const_line(f, *w, fl, salt),
        (Kind::State, _) => {
            let id = f.line(format!("state {sid} {name}").trim_end());
            holds.push((sid, id));
            id
        }
        _ => f.line(format!("input {sid} {name}").trim_end()),
    }
}

/// one file per (operator case, operand kinds, negation placement, sort order)
pub fn single_op_file(case: &OpCase, kinds: &[Kind], neg: u8, sorts_first: bool, salt: u64) -> String {
    let mut f = FileB::new();
    if sorts_first {
        for a in case.args.iter() {
            f.sort(a);
        }
        f.sort(&case.res);
        f.sort(&S::BV(1));
    }
    let mut holds = vec![];
    let mut ids = vec![];
    for (i, a) in case.args.iter().enumerate() {
        // name styles: plain; duplicates next to a name shaped like a uniquified one; a name shaped like a
        // generated default next to anonymous signals
        let name = match salt % 6 {
            1 => if i == 0 { "d_0".to_string() } else { "d".to_string() },
            2 => if i == 0 { "_input_0".to_string() } else { String::new() },
            3 => if i == 0 { "_state_0".to_string() } else { String::new() },
            _ => format!("x{i}"),
        };
        ids.push(operand(&mut f, a, kinds[i % kinds.len()], &name, salt + i as u64, &mut holds));
    }
    let rs = f.sort(&case.res);
    let refs: Vec<String> = ids
        .iter()
        .enumerate()
        .map(|(i, id)| {
            let negate = matches!(case.args[i], S::BV(_)) && (neg == 3 || (neg == 1 && i == 0) || (neg == 2 && i == 1));
            if negate { format!("-{id}") } else { format!("{id}") }
        })
        .collect();
    let params: String = case.params.iter().map(|p| format!(" {p}")).collect();
    let r = f.line(&format!("{} {rs} {}{params}", case.op, refs.join(" ")));
    f.line(&format!("output {r} res"));
    if matches!(case.res, S::BV(_)) && salt % 2 == 0 {
        f.line(&format!("output -{r} nres"));
    }
    if case.res == S::BV(1) {
        if salt % 3 == 0 {
            f.line(&format!("bad -{r}"));
        } else {
            f.line(&format!("bad {r}"));
        }
        if salt % 5 == 0 {
            f.line(&format!("constraint {r}"));
        }
    }
    // a state driven by the result
    let st = f.line(&format!("state {rs} acc"));
    if kinds.iter().all(|k| matches!(k, Kind::Const(_))) {
        f.line(&format!("init {rs} {st} {r}"));
    }
    f.line(&format!("next {rs} {st} {r}"));
    // array state initialised from a bit-vector value (lifted to a constant array)
    if let S::BV(w) = case.res {
        if w <= 8 && salt % 4 == 1 {
            let asrt = f.sort(&S::Arr(2, w));
            let ast = f.line(&format!("state {asrt} mem"));
            let c = const_line(&mut f, w, (salt % 8) as u8, salt);
            f.line(&format!("init {asrt} {ast} {c}"));
            f.line(&format!("next {asrt} {ast} {ast}"));
        }
    }
    // plain states (neither init nor next) are documented to become inputs: leave them plain in some files
    if salt % 4 != 2 {
        for (sid, id) in holds {
            f.line(&format!("next {sid} {id} {id}"));
        }
    }
    f.text()
}

/// seeded multi-line files: a random DAG of operator lines over earlier lines
pub fn random_file(seed: u64, index: u64) -> String {
    let mut rng = Rng::new(seed, "C08-file", index);
    let mut f = FileB::new();
    let mut pool: Vec<(i64, S)> = vec![];
    let ws = [1u32, 2, 4, 8];
    let mut holds = vec![];
    for i in 0..(2 + rng.below(3)) {
        let w = *rng.pick(&ws);
        let kind = match rng.below(3) {
            0 => Kind::Input,
            1 => Kind::State,
            _ => Kind::Const(rng.below(8) as u8),
        };
        let s = S::BV(w);
        let id = operand(&mut f, &s, kind, &format!("v{i}"), rng.next(), &mut holds);
        pool.push((id, s));
    }
    if rng.chance(1, 2) {
        let s = S::Arr(2, 4);
        let id = operand(&mut f, &s, if rng.chance(1, 2) { Kind::Input } else { Kind::State }, "m", 0, &mut holds);
        pool.push((id, s));
    }
    let n_ops = 3 + rng.below(8);
    for _ in 0..n_ops {
        let w = *rng.pick(&ws);
        let cases = op_cases(w);
        let case = &cases[rng.below(cases.len())];
        // find operands of the right sorts in the pool (or create a constant / input)
        let mut refs = vec![];
        let mut ok = true;
        for a in case.args.iter() {
            let cands: Vec<&(i64, S)> = pool.iter().filter(|p| p.1 == *a).collect();
            let id = if !cands.is_empty() && rng.chance(4, 5) {
                cands[rng.below(cands.len())].0
            } else {
                match a {
                    S::BV(w) => {
                        let id = if rng.chance(1, 2) { const_line(&mut f, *w, rng.below(8) as u8, rng.next()) } else { operand(&mut f, a, Kind::Input, &format!("u{}", pool.len()), 0, &mut holds) };
                        pool.push((id, a.clone()));
                        id
                    }
                    S::Arr(..) => {
                        let id = operand(&mut f, a, Kind::Input, &format!("u{}", pool.len()), 0, &mut holds);
                        pool.push((id, a.clone()));
                        id
                    }
                }
            };
            let negate = matches!(a, S::BV(_)) && rng.chance(1, 4);
            refs.push(if negate { format!("-{id}") } else { format!("{id}") });
            if id == 0 {
                ok = false;
            }
        }
        if !ok {
            continue;
        }
        let rs = f.sort(&case.res);
        let params: String = case.params.iter().map(|p| format!(" {p}")).collect();
        let r = f.line(&format!("{} {rs} {}{params}", case.op, refs.join(" ")));
        pool.push((r, case.res.clone()));
    }
    // observe everything that was computed
    let computed: Vec<(i64, S)> = pool.clone();
    for (k, (id, s)) in computed.iter().enumerate() {
        if k % 2 == 0 || *s == S::BV(1) {
            f.line(&format!("output {id} o{k}"));
        }
        if *s == S::BV(1) && k % 3 == 0 {
            f.line(&format!("bad {}{id}", if k % 2 == 1 { "-" } else { "" }));
        }
        if *s == S::BV(1) && k % 7 == 3 {
            f.line(&format!("constraint {id}"));
        }
    }
    // states driven by computed values
    for (k, (id, s)) in computed.iter().enumerate().rev().take(2) {
        let sid = f.sort(s);
        let st = f.line(&format!("state {sid} acc{k}"));
        f.line(&format!("next {sid} {st} {}{id}", if matches!(s, S::BV(_)) && k % 2 == 0 { "-" } else { "" }));
    }
    for (sid, id) in holds {
        f.line(&format!("next {sid} {id} {id}"));
    }
    f.text()
}

// ---------------------------------------------------------------------------------------------

struct Pair {
    what: String,
    e: ExprRef,
    reft: String,
}

pub fn compare(rep: &mut Report, label: &str, txt: &str, ctx: &Context, sys: &TransitionSystem, rb: &RefBtor, fast: &mut Proc, hard: &mut Portfolio, soft: bool, replay: serde_json::Value) {
    let demoted = rb.demoted();
    let kept = rb.kept();
    rep.count("obligations", 1);
    if sys.inputs.len() != rb.inputs.len() + demoted.len() || sys.states.len() != kept.len() || sys.bad_states.len() != rb.bads.len() || sys.constraints.len() != rb.cons.len() || sys.outputs.len() != rb.outs.len() {
        rep.violation(
            Role::new(SITE, "system", "shape"),
            format!("{label}: the parsed system has {} inputs / {} states / {} outputs / {} bads / {} constraints, the text declares {}+{} / {} / {} / {} / {}", sys.inputs.len(), sys.states.len(), sys.outputs.len(), sys.bad_states.len(), sys.constraints.len(), rb.inputs.len(), demoted.len(), kept.len(), rb.outs.len(), rb.bads.len(), rb.cons.len()),
            json!({"file": replay, "text": txt}),
        );
        return;
    }
    // distinct lines must become distinct symbols
    {
        let mut seen = std::collections::HashSet::new();
        for s in sys.inputs.iter().copied().chain(sys.states.iter().map(|s| s.symbol)) {
            if !seen.insert(s) {
                rep.violation(Role::new(SITE, "system", "distinct-lines-same-symbol"), format!("{label}: two different input/state lines are parsed as the same symbol `{}`", ctx.get_symbol_name(s).unwrap_or("?")), json!({"file": replay, "text": txt}));
                return;
            }
        }
    }
    let mut sym_map: HashMap<ExprRef, String> = HashMap::new();
    let mut prelude = String::new();
    let mut sort_problem = None;
    let mut link = |id: i64, s: &S, sym: ExprRef, prelude: &mut String, sym_map: &mut HashMap<ExprRef, String>| {
        prelude.push_str(&format!("(declare-const b!{id} {})\n", ssort(s)));
        sym_map.insert(sym, format!("b!{id}"));
        match RefEnc::type_of(ctx, sym) {
            Ok(t) if t == ty_of(s) => {}
            other => sort_problem = Some(format!("line {id} declares {s:?}, the parsed symbol has {other:?}")),
        }
    };
    for ((id, s), sym) in rb.inputs.iter().chain(demoted.iter().copied()).zip(sys.inputs.iter()) {
        link(*id, s, *sym, &mut prelude, &mut sym_map);
    }
    for ((id, s), st) in kept.iter().zip(sys.states.iter()) {
        link(*id, s, st.symbol, &mut prelude, &mut sym_map);
    }
    if let Some(p) = sort_problem {
        rep.violation(Role::new(SITE, "system", "declared-sort"), format!("{label}: inputs/states do not get their declared sorts: {p}"), json!({"file": replay, "text": txt}));
        return;
    }
    rep.count("discharged", 1);
    let mut pairs: Vec<Pair> = vec![];
    let mut refget = |tok: String| rb.get(&tok).map(|x| x.0).unwrap_or_else(|e| format!("(error \"{e}\")"));
    for (i, b) in rb.bads.iter().enumerate() {
        pairs.push(Pair { what: format!("bad[{i}]"), e: sys.bad_states[i], reft: refget(b.to_string()) });
    }
    for (i, b) in rb.cons.iter().enumerate() {
        pairs.push(Pair { what: format!("constraint[{i}]"), e: sys.constraints[i], reft: refget(b.to_string()) });
    }
    for (i, b) in rb.outs.iter().enumerate() {
        pairs.push(Pair { what: format!("output[{i}]"), e: sys.outputs[i].expr, reft: refget(b.to_string()) });
    }
    for (i, (id, s)) in kept.iter().enumerate() {
        match (rb.next.get(id), sys.states[i].next) {
            (Some(n), Some(e)) => pairs.push(Pair { what: format!("next[{i}]"), e, reft: refget(n.to_string()) }),
            (None, None) => {}
            _ => {
                rep.count("obligations", 1);
                rep.violation(Role::new(SITE, "next", "presence"), format!("{label}: state {i}: presence of a next function differs from the text"), json!({"file": replay, "text": txt}));
            }
        }
        match (rb.init.get(id), sys.states[i].init) {
            (Some(n), Some(e)) => {
                let (t, ts) = rb.get(&n.to_string()).unwrap_or((String::from("(error)"), S::BV(1)));
                let t = match (s, ts) {
                    (S::Arr(..), S::BV(_)) => format!("((as const {}) {t})", ssort(s)),
                    _ => t,
                };
                pairs.push(Pair { what: format!("init[{i}]"), e, reft: t });
            }
            (None, None) => {}
            _ => {
                rep.count("obligations", 1);
                rep.violation(Role::new(SITE, "init", "presence"), format!("{label}: state {i}: presence of an init value differs from the text"), json!({"file": replay, "text": txt}));
            }
        }
    }
    let mut bodies = vec![];
    let mut meta = vec![];
    for p in pairs.iter() {
        rep.count("obligations", 1);
        let mut r = RefEnc::new(ctx, "n");
        r.sym_map = sym_map.clone();
        match r.enc(p.e) {
            Ok((t, _)) => {
                bodies.push(format!("{prelude}{}{}{}(assert (distinct {t} {}))\n", r.decl_text(), rb.defs, r.defs, p.reft));
                meta.push((p, !r.nonvalue_const_array && !p.reft.contains("as const")));
            }
            Err(e) => {
                rep.violation(Role::new(SITE, p.what.split('[').next().unwrap(), "ill-typed"), format!("{label}: {} is ill-typed: {}", p.what, e.0), json!({"file": replay, "text": txt}));
            }
        }
    }
    let answers = fast.check_batch(&bodies);
    for (i, (p, cvc5_ok)) in meta.iter().enumerate() {
        let mut a = answers[i].clone();
        if matches!(a, Answer::Unknown | Answer::Timeout) {
            hard.ensure_started();
            for proc in hard.procs.iter_mut() {
                if proc.which == Which::Cvc5 && !cvc5_ok {
                    continue;
                }
                a = proc.check_once(&bodies[i]);
                if matches!(a, Answer::Sat | Answer::Unsat) {
                    break;
                }
            }
        }
        match a {
            Answer::Unsat => {
                rep.count("discharged", 1);
                rep.count("miters_unsat", 1);
                if rep.get("miters_unsat") % 997 == 1 {
                    rep.sample(json!({"file": label, "text": txt, "function": p.what, "parsed": crate::c01::show(ctx, p.e), "reference": p.reft, "answer": "unsat"}), 10);
                }
            }
            Answer::Sat => {
                // second opinion + classification by the operator of the line that defines the root
                let second = if *cvc5_ok {
                    hard.ensure_started();
                    hard.procs.iter_mut().find(|q| q.which == Which::Cvc5).map(|q| q.check_once(&bodies[i]).short().to_string())
                } else {
                    None
                };
                let n = crate::refsmt::decompose(&ctx[p.e]);
                rep.count("disagreements_checked", 1);
                rep.violation(
                    Role::new(SITE, p.what.split('[').next().unwrap(), &format!("value;root={}", n.op.name())),
                    format!("{label}: {} parsed as {} does not have the btor2 meaning {} for some valuation", p.what, crate::c01::show(ctx, p.e), p.reft),
                    json!({"file": replay, "text": txt, "function": p.what, "parsed": crate::c01::show(ctx, p.e), "second_solver": second, "query": bodies[i]}),
                );
            }
            Answer::Error(m) => rep.undecided.push(format!("ENCODING-ERROR: {label} {}: {m}", p.what)),
            other => {
                if soft {
                    rep.count("undecided_roots_listed_not_counted", 1);
                    rep.uncount("obligations", 1);
                    if rep.inconclusive.len() < 40 {
                        rep.inconclusive.push(json!({"file": label, "function": p.what, "why": other.short()}));
                    }
                } else {
                    rep.inconc(json!({"file": label, "function": p.what, "why": other.short()}));
                }
            }
        }
    }
}

fn check_text(rep: &mut Report, label: &str, txt: &str, fast: &mut Proc, hard: &mut Portfolio, soft: bool, replay: serde_json::Value) {
    rep.count("programs", 1);
    let rb = match RefBtor::parse(txt) {
        Ok(r) => r,
        Err(e) => {
            if soft {
                rep.count("files_outside_refbtor", 1);
            } else {
                rep.undecided.push(format!("RefBtor cannot read generated file {label}: {e}"));
            }
            return;
        }
    };
    let mut ctx = Context::default();
    match crate::panics::guarded(|| btor2::parse_str(&mut ctx, txt, Some("c08"))) {
        Ok(Some(sys)) => compare(rep, label, txt, &ctx, &sys, &rb, fast, hard, soft, replay),
        Ok(None) => {
            rep.count("obligations", 1);
            rep.violation(Role::new(SITE, "system", "well-sorted-file-rejected"), format!("{label}: the reader rejects a well-sorted file"), json!({"file": replay, "text": txt}));
        }
        Err((loc, msg)) => {
            rep.count("obligations", 1);
            rep.violation(Role::new(SITE, "system", &format!("panic@{loc}")), format!("{label}: the reader panicked on a well-sorted file: {msg}"), json!({"file": replay, "text": txt}));
        }
    }
}

/// ill-sorted variants of a single-operator file; each must be rejected
fn ill_sorted_variants(case: &OpCase, salt: u64) -> Vec<(String, String)> {
    let mut out = vec![];
    let kinds = [Kind::Input, Kind::Input, Kind::Input];
    let base = single_op_file(case, &kinds, 0, true, salt);
    let lines: Vec<&str> = base.lines().collect();
    // sorts declared in the file
    let sorts: Vec<(i64, String)> = lines.iter().filter_map(|l| { let t: Vec<&str> = l.split_whitespace().collect(); if t.len() > 2 && t[1] == "sort" { Some((t[0].parse().ok()?, l.to_string())) } else { None } }).collect();
    let opi = lines.iter().position(|l| l.split_whitespace().nth(1) == Some(case.op)).unwrap();
    let ot: Vec<String> = lines[opi].split_whitespace().map(|s| s.to_string()).collect();
    // (1) declared sort of the operator line changed to every other declared sort
    for (sid, _) in sorts.iter() {
        if sid.to_string() != ot[2] {
            let mut t = ot.clone();
            t[2] = sid.to_string();
            let mut l2: Vec<String> = lines.iter().map(|s| s.to_string()).collect();
            l2[opi] = t.join(" ");
            // keep only the lines up to the operator and its output (later lines depend on the sort)
            let mut txt: Vec<String> = l2[..=opi].to_vec();
            txt.push(format!("{} output {}", 10_000, ot[0]));
            out.push((format!("declared sort {} -> {}", ot[2], sid), txt.join("\n") + "\n"));
        }
    }
    // (4) history: the complete well-sorted file, followed by a *repetition* of the operator line (same operands,
    //     new id) whose declared sort is another declared sort - the reader has already built and accepted the
    //     identical expression once
    for (sid, _) in sorts.iter() {
        if sid.to_string() != ot[2] {
            let mut t = ot.clone();
            t[0] = "9500".into();
            t[2] = sid.to_string();
            let mut txt: Vec<String> = lines.iter().map(|s| s.to_string()).collect();
            txt.push(t.join(" "));
            txt.push("9501 output 9500".into());
            out.push((format!("repeated line with declared sort {} -> {}", ot[2], sid), txt.join("\n") + "\n"));
        }
    }
    // (2) an extra operand of a different bit-vector width replaces the last operand
    if case.args.len() >= 2 && case.op != "concat" {
        if let S::BV(w) = case.args[case.args.len() - 1] {
            let mut txt: Vec<String> = lines[..opi].iter().map(|s| s.to_string()).collect();
            txt.push(format!("{} sort bitvec {}", 9_000, w + 5));
            txt.push(format!("{} input {} other", 9_001, 9_000));
            let mut t = ot.clone();
            let k = 2 + case.args.len();
            t[k] = "9001".into();
            t[0] = "9002".into();
            txt.push(t.join(" "));
            txt.push("9003 output 9002".into());
            out.push(("last operand of a different width".into(), txt.join("\n") + "\n"));
        }
    }
    // (3) all bit-vector operands replaced by operands of another common width, declared sort kept
    if case.args.iter().all(|a| matches!(a, S::BV(_))) && case.args.len() >= 2 && case.args.windows(2).all(|w| w[0] == w[1]) && !matches!(case.op, "concat") {
        if let S::BV(w) = case.args[0] {
            let nw = if w == 8 { 4 } else { 8 };
            let mut txt: Vec<String> = lines[..opi].iter().map(|s| s.to_string()).collect();
            txt.push(format!("9000 sort bitvec {nw}"));
            let mut t = ot.clone();
            for (i, _) in case.args.iter().enumerate() {
                txt.push(format!("{} input 9000 alt{i}", 9001 + i));
                t[3 + i] = format!("{}", 9001 + i);
            }
            t[0] = "9100".into();
            txt.push(t.join(" "));
            txt.push("9101 output 9100".into());
            // only ill-sorted if the declared result sort depends on the operand width or the operator needs 1-bit operands
            let ill = matches!(case.res, S::BV(rw) if rw != 1) || matches!(case.op, "iff" | "implies");
            if ill {
                out.push((format!("operands of width {nw} instead of {w}"), txt.join("\n") + "\n"));
            }
        }
    }
    out
}

pub fn run(tier: Tier, seed: u64, replay: Option<serde_json::Value>) -> i32 {
    let mut rep = Report::new("C08", tier, seed, "translation_validation");
    // ---- generated files
    let mut files: Vec<(String, String)> = vec![];
    let kind_sets: Vec<Vec<Kind>> = vec![
        vec![Kind::Input, Kind::Input, Kind::Input],
        vec![Kind::State, Kind::Input, Kind::State],
        vec![Kind::Input, Kind::Const(3), Kind::Const(5)],
        vec![Kind::Const(4), Kind::Const(2), Kind::Const(6)],
        vec![Kind::Const(5), Kind::Input, Kind::Const(7)],
    ];
    let mut salt = seed;
    for w in WIDTHS {
        for case in op_cases(w) {
            for (ki, kinds) in kind_sets.iter().enumerate() {
                for neg in 0..4u8 {
                    if tier == Tier::Quick && (ki + neg as usize + w as usize) % 2 == 1 && ki > 0 {
                        continue;
                    }
                    salt += 1;
                    let sorts_first = salt % 2 == 0;
                    files.push((format!("{} w={w} kinds={ki} neg={neg} sorts_first={sorts_first}", case.op), single_op_file(&case, kinds, neg, sorts_first, salt)));
                }
            }
        }
    }
    let n_random = tier.pick(1500u64, 20000u64);
    for i in 0..n_random {
        files.push((format!("random file #{i}"), random_file(seed, i)));
    }
    let mut shipped = crate::syscmp::shipped_files(tier == Tier::Thorough);
    if let Some(r) = &replay {
        rep.write_files = false;
        shipped = vec![];
        files = vec![];
        if let Some(t) = r["replay"]["text"].as_str() {
            files.push(("replayed file".into(), t.to_string()));
        }
    }
    let timeout = tier.pick(10_000u64, 60_000u64);
    let parts: Vec<Report> = files
        .par_chunks(200)
        .map(|chunk| {
            let mut r = Report::new("C08", tier, seed, "translation_validation");
            let mut fast = Proc::new(Which::Z3New, 5000);
            let mut hard = Portfolio::new(timeout);
            for (label, txt) in chunk {
                check_text(&mut r, label, txt, &mut fast, &mut hard, false, json!({"label": label}));
            }
            r.count("solver_time_ms", fast.solver_time.as_millis() as u64 + hard.stats().0);
            r.count("solver_queries", fast.queries + hard.stats().1);
            r
        })
        .collect();
    for p in parts {
        rep.merge(p);
    }
    // ---- rejection clause
    if replay.is_none() {
        let mut variants = vec![];
        for w in [1u32, 4, 8] {
            for case in op_cases(w) {
                for (why, txt) in ill_sorted_variants(&case, w as u64) {
                    variants.push((format!("{} w={w}: {why}", case.op), txt));
                }
            }
        }
        for (label, txt) in variants {
            rep.count("obligations", 1);
            rep.count("ill_sorted_variants", 1);
            let mut ctx = Context::default();
            match crate::panics::guarded(|| btor2::parse_str(&mut ctx, &txt, Some("c08"))) {
                Ok(None) => {
                    rep.count("discharged", 1);
                    rep.count("ill_sorted_rejected", 1);
                }
                Err(_) => {
                    // a crash is not an acceptance; robustness belongs to C18 (not claimed)
                    rep.count("discharged", 1);
                    rep.count("ill_sorted_reader_panicked_observation", 1);
                }
                Ok(Some(_)) => {
                    let op = label.split_whitespace().next().unwrap_or("?").to_string();
                    rep.violation(Role::new(SITE, &op, "ill-sorted-line-accepted"), format!("ill-sorted file accepted ({label})"), json!({"text": txt, "label": label}));
                }
            }
        }
    }
    // ---- shipped designs (semantics clause only)
    let fparts: Vec<Report> = shipped
        .par_iter()
        .map(|f| {
            let mut r = Report::new("C08", tier, seed, "translation_validation");
            let mut fast = Proc::new(Which::Z3New, 5000);
            let mut hard = Portfolio::new(timeout);
            if let Ok(txt) = std::fs::read_to_string(f) {
                r.count("shipped_files", 1);
                check_text(&mut r, &format!("{}", f.strip_prefix(crate::report::repo_root()).unwrap_or(f).display()), &txt, &mut fast, &mut hard, true, json!({"path": f.display().to_string()}));
            }
            r
        })
        .collect();
    for p in fparts {
        rep.merge(p);
    }
    rep.extra.insert("bounds".into(), json!({"widths": WIDTHS, "arrays": ["bv1->bv1", "bv2->bv4", "bv2->bv{w}"], "operators": "all supported unary/binary/ternary operators, 6 constant forms incl. negative constd",
        "negation_placements": ["none", "first", "second", "all"], "operand_kinds": ["input", "state", "constant"], "random_files": n_random, "shipped_designs": shipped.len()}));
    rep.extra.insert("functions_encoded".into(), json!(["btor2::parse_str (line dispatcher, operator lowering, negated ids, declared-sort check, init/next attachment, init lifting, demotion of plain states)"]));
    rep.extra.insert("outside_claim".into(), json!(["rol ror inc dec, overflow predicates, fair, justice (documented unsupported)", "crashes on ill-sorted input (C18, not claimed)", "undecided roots of shipped designs"]));
    rep.assumptions = vec!["RefBtor states the btor2 semantics of each line; RefSmt is the SMT-LIB reading of Expr".into()];
    rep.finish()
}
