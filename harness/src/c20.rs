//! C20 — value summaries denote a total function and operations preserve it.
//! Real code: ValueSummary::{new, apply_bin_op, apply_ite, coalesce, import_into_guard},
//! GuardCtx::expr_to_guard (through the cfg(patronus_verif) read-only accessors).

use crate::refsmt::RefEnc;
use crate::report::{Report, Role, Tier};
use crate::rng::Rng;
use crate::solver::{Answer, Proc, Which};
use boolean_expression::Expr as BE;
use patronus::expr::{Context, ExprRef, TypeCheck};
use patronus_dse::{GuardCtx, ValueSummary};
use rayon::prelude::*;
use serde_json::json;

pub const SITE: &str = "patronus_dse::ValueSummary / GuardCtx";

#[derive(Clone, Debug)]
pub enum Prog {
    New(usize),
    Bin(u8, Box<Prog>, Box<Prog>),
    Ite(Box<Prog>, Box<Prog>, Box<Prog>),
    Coalesce(Box<Prog>),
    Import(Box<Prog>),
}

impl Prog {
    fn show(&self, leaves: &[String]) -> String {
        match self {
            Prog::New(i) => format!("new({})", leaves[*i]),
            Prog::Bin(o, a, b) => format!("bin_op[{}]({}, {})", ["add/or", "and", "xor"][*o as usize % 3], a.show(leaves), b.show(leaves)),
            Prog::Ite(c, t, f) => format!("ite({}, {}, {})", c.show(leaves), t.show(leaves), f.show(leaves)),
            Prog::Coalesce(a) => format!("coalesce({})", a.show(leaves)),
            Prog::Import(a) => format!("import_into_guard({})", a.show(leaves)),
        }
    }
    fn top(&self) -> &'static str {
        match self {
            Prog::New(_) => "new",
            Prog::Bin(..) => "apply_bin_op",
            Prog::Ite(..) => "apply_ite",
            Prog::Coalesce(_) => "coalesce",
            Prog::Import(_) => "import_into_guard",
        }
    }
}

pub struct Leaves {
    pub bools: Vec<ExprRef>,
    pub vals: Vec<ExprRef>,
    /// Boolean expressions used for the guard-conversion clause only (Import / Ite condition): every binary
    /// Boolean operator and every 1-bit comparison with leaf and compound operands in either position
    pub conv: Vec<ExprRef>,
    pub names: Vec<String>,
}

impl Leaves {
    pub fn get(&self, i: usize) -> ExprRef {
        let (nb, nv) = (self.bools.len(), self.vals.len());
        if i < nb { self.bools[i] } else if i < nb + nv { self.vals[i - nb] } else { self.conv[i - nb - nv] }
    }
}

/// Boolean leaves: expressions over 6 Boolean terminals plus terminals with non-Boolean operands
pub fn make_leaves(ctx: &mut Context) -> Leaves {
    let c: Vec<ExprRef> = (0..6).map(|i| ctx.bv_symbol(&format!("c{i}"), 1)).collect();
    let x = ctx.bv_symbol("x", 4);
    let y = ctx.bv_symbol("y", 4);
    let z = ctx.bv_symbol("z", 4);
    let w = ctx.bv_symbol("w", 4);
    let mut bools = vec![c[0], c[1], c[2]];
    let nc1 = ctx.not(c[1]);
    bools.push(ctx.and(c[0], nc1));
    let t = ctx.and(c[0], nc1);
    bools.push(ctx.or(t, c[2]));
    bools.push(ctx.xor(c[1], c[2]));
    bools.push(ctx.implies(c[3], c[4]));
    bools.push(ctx.not(c[0]));
    bools.push(ctx.greater(x, y));
    let gt = ctx.greater(x, y);
    bools.push(ctx.and(gt, c[5]));
    bools.push(ctx.equal(x, z));
    bools.push(ctx.get_true());
    bools.push(ctx.get_false());
    let o = ctx.or(c[3], c[4]);
    let a = ctx.and(c[3], c[4]);
    bools.push(ctx.xor(o, a));
    // Boolean-typed equality / ite over Boolean operands
    bools.push(ctx.equal(c[0], c[1]));
    bools.push(ctx.ite(c[0], c[1], c[2]));
    let vals = vec![x, y, z, w, ctx.bit_vec_val(5u32, 4u32)];
    // conversion leaves (added after an independently seeded change reordered the operands that
    // expr_to_guard receives for `implies(compound, leaf)`; the fixed list above had only implies(leaf, leaf))
    let mut operands: Vec<ExprRef> = vec![c[0], c[1], ctx.greater(x, y)];
    operands.push(ctx.not(c[1]));
    operands.push(ctx.and(c[0], c[2]));
    operands.push(ctx.xor(c[1], c[2]));
    operands.push(ctx.implies(c[3], c[4]));
    let mut conv = vec![];
    for (ai, a) in operands.clone().into_iter().enumerate() {
        conv.push(ctx.not(a));
        for (bi, b) in operands.clone().into_iter().enumerate() {
            conv.push(ctx.and(a, b));
            conv.push(ctx.or(a, b));
            conv.push(ctx.xor(a, b));
            conv.push(ctx.implies(a, b));
            conv.push(ctx.equal(a, b));
            conv.push(ctx.greater(a, b));
            conv.push(ctx.greater_signed(a, b));
            conv.push(ctx.greater_or_equal(a, b));
            conv.push(ctx.greater_or_equal_signed(a, b));
            if (ai + bi) % 2 == 0 {
                conv.push(ctx.ite(a, b, c[5]));
                conv.push(ctx.ite(c[5], a, b));
                conv.push(ctx.ite(b, c[5], a));
            }
        }
    }
    conv.sort();
    conv.dedup();
    let mut names = vec![];
    use patronus::expr::SerializableIrNode;
    for b in bools.iter().chain(vals.iter()).chain(conv.iter()) {
        names.push(b.serialize_to_str(ctx));
    }
    Leaves { bools, vals, conv, names }
}

fn gen_prog(rng: &mut Rng, boolean: bool, depth: usize, lv: &Leaves) -> Prog {
    if depth == 0 || rng.chance(1, 5) {
        return if boolean { Prog::New(rng.below(lv.bools.len())) } else { Prog::New(lv.bools.len() + rng.below(lv.vals.len())) };
    }
    match rng.below(if boolean { 6 } else { 5 }) {
        0 | 1 => Prog::Bin(rng.below(3) as u8, Box::new(gen_prog(rng, boolean, depth - 1, lv)), Box::new(gen_prog(rng, boolean, depth - 1, lv))),
        2 | 3 => Prog::Ite(Box::new(gen_prog(rng, true, depth - 1, lv)), Box::new(gen_prog(rng, boolean, depth - 1, lv)), Box::new(gen_prog(rng, boolean, depth - 1, lv))),
        4 => Prog::Coalesce(Box::new(gen_prog(rng, boolean, depth - 1, lv))),
        _ => Prog::Import(Box::new(gen_prog(rng, true, depth - 1, lv))),
    }
}

fn be_smt(e: &BE<ExprRef>, terms: &mut Vec<ExprRef>) -> String {
    match e {
        BE::Terminal(t) => {
            if !terms.contains(t) {
                terms.push(*t);
            }
            format!("t!{}", usize::from(*t))
        }
        BE::Const(b) => b.to_string(),
        BE::Not(a) => format!("(not {})", be_smt(a, terms)),
        BE::And(a, b) => format!("(and {} {})", be_smt(a, terms), be_smt(b, terms)),
        BE::Or(a, b) => format!("(or {} {})", be_smt(a, terms), be_smt(b, terms)),
    }
}

struct Node {
    vs: ValueSummary<ExprRef>,
    /// the value the summary must denote, as an expression over the terminals' symbols
    denot: ExprRef,
}

struct Env<'a> {
    ctx: Context,
    gc: GuardCtx,
    lv: &'a Leaves,
    queries: Vec<(String, String, String)>, // (what, class, body)
}

fn op_apply(ctx: &mut Context, boolean: bool, o: u8, a: ExprRef, b: ExprRef) -> ExprRef {
    match (boolean, o % 3) {
        (false, 0) => ctx.add(a, b),
        (true, 0) => ctx.or(a, b),
        (_, 1) => ctx.and(a, b),
        _ => ctx.xor(a, b),
    }
}

/// emit the partition and denotation obligations for a summary
fn obligations(env: &mut Env, what: &str, vs: &ValueSummary<ExprRef>, denot: ExprRef, prog_text: &str) {
    let entries = vs.verif_entries();
    let mut terms: Vec<ExprRef> = vec![];
    let guards: Vec<String> = entries.iter().map(|(g, _)| be_smt(&env.gc.verif_guard_expr(*g), &mut terms)).collect();
    let mut r = RefEnc::new(&env.ctx, "n");
    let vals: Vec<String> = entries.iter().map(|(_, v)| r.enc(*v).map(|x| x.0).unwrap_or_else(|e| format!("(error \"{}\")", e.0))).collect();
    let (dt, _) = r.enc(denot).unwrap_or_else(|e| (format!("(error \"{}\")", e.0), crate::refsmt::Ty::BV(1)));
    let mut link = String::new();
    for t in terms.iter() {
        let tt = r.enc(*t).map(|x| x.0).unwrap_or_default();
        link.push_str(&format!("(define-fun t!{} () Bool (= {tt} #b1))\n", usize::from(*t)));
    }
    let pre = format!("{}{}{link}", r.decl_text(), r.defs);
    // partition: exactly one guard holds
    let mut parts = vec![format!("(or false {})", guards.join(" "))];
    for i in 0..guards.len() {
        for j in i + 1..guards.len() {
            parts.push(format!("(not (and {} {}))", guards[i], guards[j]));
        }
    }
    env.queries.push((format!("{what}: partition of {prog_text}"), "partition".into(), format!("{pre}(assert (not (and true {})))\n", parts.join(" "))));
    // denotation: under every valuation, the value of the entry whose guard holds is the denotation
    let mut clauses = vec![];
    for (g, v) in guards.iter().zip(vals.iter()) {
        clauses.push(format!("(and {g} (distinct {v} {dt}))"));
    }
    env.queries.push((format!("{what}: denotation of {prog_text}"), "denotation".into(), format!("{pre}(assert (or false {}))\n", clauses.join(" "))));
}

fn eval(env: &mut Env, p: &Prog, boolean: bool) -> Result<Node, (String, String, String)> {
    let text = p.show(&env.lv.names);
    let guarded = |what: &str, r: Result<Node, (String, String)>| r.map_err(|(l, m)| (what.to_string(), l, m));
    let node = match p {
        Prog::New(i) => {
            let v = env.lv.get(*i);
            let vs = ValueSummary::new(&mut env.gc, v);
            if boolean {
                // guard conversion clause
                let g = crate::panics::guarded(|| env.gc.expr_to_guard(&env.ctx, v)).map_err(|(l, m)| ("expr_to_guard".to_string(), l, m))?;
                let mut terms = vec![];
                let gs = be_smt(&env.gc.verif_guard_expr(g), &mut terms);
                let mut r = RefEnc::new(&env.ctx, "n");
                let (vt, _) = r.enc(v).map_err(|e| ("refsmt".to_string(), "?".to_string(), e.0))?;
                let mut link = String::new();
                for t in terms.iter() {
                    let tt = r.enc(*t).map(|x| x.0).unwrap_or_default();
                    link.push_str(&format!("(define-fun t!{} () Bool (= {tt} #b1))\n", usize::from(*t)));
                }
                env.queries.push((format!("expr_to_guard({})", env.lv.names[*i]), "guard-conversion".into(), format!("{}{}{link}(assert (distinct {gs} (= {vt} #b1)))\n", r.decl_text(), r.defs)));
            }
            Node { vs, denot: v }
        }
        Prog::Bin(o, a, b) => {
            let na = eval(env, a, boolean)?;
            let nb = eval(env, b, boolean)?;
            let denot = op_apply(&mut env.ctx, boolean, *o, na.denot, nb.denot);
            let f: fn(&mut Context, ExprRef, ExprRef) -> ExprRef = match (boolean, o % 3) {
                (false, 0) => |c, a, b| c.add(a, b),
                (true, 0) => |c, a, b| c.or(a, b),
                (_, 1) => |c, a, b| c.and(a, b),
                _ => |c, a, b| c.xor(a, b),
            };
            let (ctx, gc) = (&mut env.ctx, &mut env.gc);
            guarded("apply_bin_op", crate::panics::guarded(|| Node { vs: ValueSummary::apply_bin_op(ctx, gc, f, na.vs, nb.vs), denot }))?
        }
        Prog::Ite(c, t, f) => {
            let nc = eval(env, c, true)?;
            let nt = eval(env, t, boolean)?;
            let nf = eval(env, f, boolean)?;
            let denot = env.ctx.ite(nc.denot, nt.denot, nf.denot);
            let (ctx, gc) = (&mut env.ctx, &mut env.gc);
            guarded("apply_ite", crate::panics::guarded(|| Node { vs: ValueSummary::apply_ite(ctx, gc, nc.vs, nt.vs, nf.vs), denot }))?
        }
        Prog::Coalesce(a) => {
            let mut n = eval(env, a, boolean)?;
            let gc = &mut env.gc;
            crate::panics::guarded(|| n.vs.coalesce(gc)).map_err(|(l, m)| ("coalesce".to_string(), l, m))?;
            n
        }
        Prog::Import(a) => {
            let mut n = eval(env, a, true)?;
            let (ctx, gc) = (&mut env.ctx, &mut env.gc);
            crate::panics::guarded(|| n.vs.import_into_guard(ctx, gc)).map_err(|(l, m)| ("import_into_guard".to_string(), l, m))?;
            n
        }
    };
    obligations(env, p.top(), &node.vs, node.denot, &text);
    Ok(node)
}

fn run_prog(rep: &mut Report, z3: &mut Proc, lv_proto: &Leaves, p: &Prog, boolean: bool, id: serde_json::Value) {
    crate::panics::set_context(format!("C20 program {id}"));
    rep.count("programs", 1);
    // fresh context per program (the leaves are rebuilt in the same order => same ExprRefs)
    let mut ctx = Context::default();
    let lv = make_leaves(&mut ctx);
    let _ = lv_proto;
    let mut env = Env { ctx, gc: GuardCtx::default(), lv: &lv, queries: vec![] };
    let text = p.show(&lv.names);
    let res = eval(&mut env, p, boolean);
    if let Err((op, loc, msg)) = &res {
        rep.count("obligations", 1);
        rep.violation(Role::new(SITE, op, &format!("panic@{loc}")), format!("{op} panicked ({msg}) while executing {text}"), json!({"program": id, "text": text}));
    }
    let bodies: Vec<String> = env.queries.iter().map(|q| q.2.clone()).collect();
    let answers = z3.check_batch(&bodies);
    for (i, (what, class, body)) in env.queries.iter().enumerate() {
        rep.count("obligations", 1);
        match &answers[i] {
            Answer::Unsat => {
                rep.count("discharged", 1);
                if rep.get("discharged") % 2999 == 1 {
                    rep.sample(json!({"obligation": what, "answer": "unsat", "smt2": body}), 10);
                }
            }
            Answer::Sat => {
                // model of the terminals / symbols for the report
                z3.push();
                let _ = z3.check(body);
                let model = z3.exchange("(get-model)").map(|l| l.join(" ")).unwrap_or_default();
                z3.pop();
                rep.count("disagreements_checked", 1);
                let op = what.split(':').next().unwrap_or("?").split('(').next().unwrap_or("?").to_string();
                rep.violation(Role::new(SITE, &op, class), format!("{what} fails while executing {text}"), json!({"program": id, "text": text, "obligation": what, "model": model.chars().take(1500).collect::<String>(), "smt2": body}));
            }
            Answer::Error(m) => rep.undecided.push(format!("ENCODING-ERROR in C20 query ({what}): {m}")),
            other => rep.inconc(json!({"obligation": what, "why": other.short()})),
        }
    }
}

fn exhaustive(depth2: bool, lv: &Leaves) -> Vec<(Prog, bool)> {
    // all programs with one operation over leaves (and, if depth2, one nested operation in each position)
    let mut out = vec![];
    let nb = lv.bools.len();
    let bl: Vec<Prog> = (0..nb).map(Prog::New).collect();
    let vl: Vec<Prog> = (nb..nb + lv.vals.len()).map(Prog::New).collect();
    let bx = |p: &Prog| Box::new(p.clone());
    for a in bl.iter() {
        out.push((Prog::Import(bx(a)), true));
        out.push((Prog::Coalesce(bx(a)), true));
        for b in bl.iter() {
            for o in 0..3u8 {
                out.push((Prog::Bin(o, bx(a), bx(b)), true));
            }
        }
        for (ti, t) in vl.iter().enumerate() {
            for f in vl.iter().skip(ti) {
                out.push((Prog::Ite(bx(a), bx(t), bx(f)), false));
            }
        }
    }
    // conversion leaves: as a guard on its own, as an ite condition, and combined with a plain Boolean summary
    let base = nb + lv.vals.len();
    for i in 0..lv.conv.len() {
        let a = Prog::New(base + i);
        out.push((Prog::Import(bx(&a)), true));
        out.push((Prog::Ite(bx(&a), bx(&vl[0]), bx(&vl[1])), false));
        out.push((Prog::Bin(1, bx(&Prog::Import(bx(&a))), bx(&bl[0])), true));
    }
    if depth2 {
        // ite summaries combined with each other: shared / different / complementary conditions
        for (ci, c1) in bl.iter().enumerate() {
            for c2 in bl.iter().skip(ci).step_by(2) {
                let s1 = Prog::Ite(bx(c1), bx(&vl[0]), bx(&vl[1]));
                let s2 = Prog::Ite(bx(c2), bx(&vl[2]), bx(&vl[1]));
                for o in 0..3u8 {
                    out.push((Prog::Bin(o, bx(&s1), bx(&s2)), false));
                }
                let i2 = Prog::Import(bx(c2));
                let sb1 = Prog::Ite(bx(c1), bx(&bl[0]), bx(&bl[1]));
                out.push((Prog::Bin(1, bx(&sb1), bx(&i2)), true));
                out.push((Prog::Bin(2, bx(&i2), bx(&sb1)), true));
                out.push((Prog::Coalesce(bx(&Prog::Bin(0, bx(&s1), bx(&s1)))), false));
                out.push((Prog::Ite(bx(&i2), bx(&s1), bx(&s2)), false));
            }
            // nested ite on the same condition: an entry whose guard is unsatisfiable (c and not c), then
            // combined with a summary that shares the remaining guards
            let nested = Prog::Ite(bx(c1), bx(&Prog::Ite(bx(c1), bx(&vl[0]), bx(&vl[1]))), bx(&vl[2]));
            let plain = Prog::Ite(bx(c1), bx(&vl[2]), bx(&vl[0]));
            for o in 0..3u8 {
                out.push((Prog::Bin(o, bx(&nested), bx(&plain)), false));
                out.push((Prog::Bin(o, bx(&plain), bx(&nested)), false));
            }
            out.push((Prog::Coalesce(bx(&nested)), false));
        }
    }
    out
}

pub fn run(tier: Tier, seed: u64, replay: Option<serde_json::Value>) -> i32 {
    let mut rep = Report::new("C20", tier, seed, "translation_validation");
    let mut proto_ctx = Context::default();
    let lv = make_leaves(&mut proto_ctx);
    let mut progs: Vec<(Prog, bool, serde_json::Value)> = vec![];
    for (i, (p, b)) in exhaustive(true, &lv).into_iter().enumerate() {
        progs.push((p, b, json!({"exhaustive": i})));
    }
    let n = tier.pick(6000u64, 80000u64);
    for i in 0..n {
        let mut rng = Rng::new(seed, "C20", i);
        let boolean = rng.chance(1, 2);
        let depth = if i % 10 == 0 { rng.range(4, tier.pick(5, 7)) } else { rng.range(2, 3) } as usize;
        progs.push((gen_prog(&mut rng, boolean, depth, &lv), boolean, json!({"seeded": i})));
    }
    if let Some(r) = &replay {
        rep.write_files = false;
        let want = r["replay"]["program"].clone();
        progs.retain(|p| p.2 == want);
    }
    let parts: Vec<Report> = progs
        .par_chunks(200)
        .map(|chunk| {
            let mut r = Report::new("C20", tier, seed, "translation_validation");
            let mut z3 = Proc::new(Which::Z3New, 10_000);
            let mut c = Context::default();
            let lvp = make_leaves(&mut c);
            for (p, b, id) in chunk {
                run_prog(&mut r, &mut z3, &lvp, p, *b, id.clone());
            }
            r.count("solver_time_ms", z3.solver_time.as_millis() as u64);
            r.count("solver_queries", z3.queries);
            r
        })
        .collect();
    for p in parts {
        rep.merge(p);
    }
    let _ = proto_ctx.get_true().get_type(&proto_ctx);
    rep.extra.insert("bounds".into(), json!({"boolean_leaves": lv.bools.len(), "guard_conversion_leaves": lv.conv.len(), "value_leaves": lv.vals.len(), "guard_terminals": "6 Boolean symbols + terminals with non-Boolean operands (x > y, x == z)",
        "exhaustive": "all single operations over all leaves + structured depth-2 combinations of ite/import summaries", "seeded_histories": n, "max_depth": tier.pick(5, 7)}));
    rep.extra.insert("functions_encoded".into(), json!(["ValueSummary::new", "apply_bin_op", "apply_ite", "coalesce", "import_into_guard", "GuardCtx::expr_to_guard"]));
    rep.extra.insert("outside_claim".into(), json!(["summaries over more than the listed terminals", "Value implementations other than ExprRef"]));
    rep.assumptions = vec!["BDD::to_expr (boolean_expression crate) exports a guard faithfully (the hook only reads)".into(), "RefSmt is the SMT-LIB reading of Expr".into()];
    rep.finish()
}
