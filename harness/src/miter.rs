//! Equivalence miters with model extraction and replay (DESIGN.md 3.5).

use crate::bigeval::{self, Val};
use crate::refsmt::{self, IllTyped, Ty};
use crate::solver::{Answer, Proc, parse_bv_value};
use num_bigint::BigUint;
use patronus::expr::{Context, ExprRef};
use std::collections::{BTreeMap, HashMap};

pub type Model = Vec<(ExprRef, String, Val)>;

pub enum Verdict {
    /// unsat – equivalent for all assignments
    Equal,
    /// sat, model confirmed by the big-integer evaluator: the two sides differ
    Differ { model: Model, va: Val, vb: Val },
    /// sat, but the big-integer evaluator does not confirm the model → encoding error
    Unconfirmed { model: Model, detail: String },
    Inconclusive(String),
    IllTyped(String),
}

/// Reads the model of the declared symbols after a `sat` (the solver must still be in the scope
/// of the query). Arrays are read cell by cell (index width ≤ 4).
pub fn read_model(p: &mut Proc, decls: &[(String, Ty, ExprRef)]) -> Result<Model, String> {
    let mut terms = vec![];
    for (n, t, _) in decls {
        match t {
            Ty::BV(_) => terms.push(n.clone()),
            Ty::Arr(iw, _) => {
                if *iw > 4 {
                    return Err(format!("array index width {iw} too large to read back"));
                }
                for i in 0..(1u32 << iw) {
                    terms.push(format!("(select {n} {})", bigeval::bv_smt(&BigUint::from(i), *iw)));
                }
            }
        }
    }
    let vals = p.get_values(&terms).ok_or("get-value failed")?;
    let mut it = vals.into_iter();
    let mut out = vec![];
    for (n, t, e) in decls {
        match t {
            Ty::BV(w) => {
                let s = it.next().unwrap();
                let v = parse_bv_value(&s).ok_or(format!("cannot parse value {s}"))?;
                out.push((*e, n.clone(), Val::BV(v, *w)));
            }
            Ty::Arr(iw, dw) => {
                let mut map = BTreeMap::new();
                for i in 0..(1u32 << iw) {
                    let s = it.next().unwrap();
                    let v = parse_bv_value(&s).ok_or(format!("cannot parse value {s}"))?;
                    map.insert(BigUint::from(i), v);
                }
                out.push((*e, n.clone(), Val::Arr { iw: *iw, dw: *dw, default: BigUint::from(0u32), map }.normalize()));
            }
        }
    }
    Ok(out)
}

pub fn model_env(m: &Model) -> HashMap<ExprRef, Val> {
    m.iter().map(|(e, _, v)| (*e, v.clone())).collect()
}

pub fn model_json(ctx: &Context, m: &Model) -> serde_json::Value {
    serde_json::Value::Array(
        m.iter()
            .map(|(e, n, v)| {
                serde_json::json!({"symbol": ctx.get_symbol_name(*e).unwrap_or("?"), "smt_name": n, "value": v.show()})
            })
            .collect(),
    )
}

/// Decide `a ≡ b` for all assignments with one solver.
pub fn check_equiv(ctx: &Context, p: &mut Proc, a: ExprRef, b: ExprRef) -> (Verdict, String) {
    let mut ps = [p];
    check_equiv_portfolio(ctx, &mut ps, a, b)
}

/// Lazily started solvers for hard queries: cvc5 first (its rewriter handles shifts/extensions by
/// constants that z3 4.8.12 bit-blasts), then z3 5.1, then z3 4.8.12.
pub struct Portfolio {
    pub timeout_ms: u64,
    pub procs: Vec<Proc>,
}

impl Portfolio {
    pub fn new(timeout_ms: u64) -> Self {
        Portfolio { timeout_ms, procs: vec![] }
    }
    pub fn ensure_started(&mut self) {
        self.ensure();
    }
    fn ensure(&mut self) {
        if self.procs.is_empty() {
            use crate::solver::Which;
            for w in [Which::Z3New, Which::Cvc5, Which::Z3] {
                self.procs.push(Proc::new(w, self.timeout_ms));
            }
        }
    }
    pub fn check_equiv(&mut self, ctx: &Context, a: ExprRef, b: ExprRef) -> (Verdict, String) {
        self.ensure();
        let mut ps: Vec<&mut Proc> = self.procs.iter_mut().collect();
        check_equiv_portfolio(ctx, &mut ps, a, b)
    }
    pub fn stats(&self) -> (u64, u64) {
        (self.procs.iter().map(|p| p.solver_time.as_millis() as u64).sum(), self.procs.iter().map(|p| p.queries).sum())
    }
}

/// Decide `a ≡ b` for all assignments; solvers are tried in order until one is decisive.
/// `unsat` from any solver is accepted; a `sat` model is always confirmed by the big-integer
/// evaluator, whichever solver produced it.
pub fn check_equiv_portfolio(ctx: &Context, ps: &mut [&mut Proc], a: ExprRef, b: ExprRef) -> (Verdict, String) {
    let m = match refsmt::miter(ctx, a, b) {
        Ok(m) => m,
        Err(IllTyped(s)) => return (Verdict::IllTyped(s), String::new()),
    };
    let mut why = vec![];
    for p in ps.iter_mut() {
        if p.which == crate::solver::Which::Cvc5 && !m.cvc5_ok {
            continue;
        }
        p.push();
        let ans = p.check(&m.text);
        let v = match ans {
            Answer::Unsat => Some(Verdict::Equal),
            Answer::Sat => match read_model(p, &m.decls) {
                Err(e) => {
                    why.push(format!("{}: sat but model unreadable: {e}", p.which.name()));
                    None
                }
                Ok(model) => {
                    let env = model_env(&model);
                    match (bigeval::eval(ctx, &env, a), bigeval::eval(ctx, &env, b)) {
                        (Ok(va), Ok(vb)) => {
                            if bigeval::vals_equal(&va, &vb) {
                                Some(Verdict::Unconfirmed { model, detail: format!("{}: both sides evaluate to {}", p.which.name(), va.show()) })
                            } else {
                                Some(Verdict::Differ { model, va, vb })
                            }
                        }
                        (ra, rb) => Some(Verdict::Unconfirmed { model, detail: format!("evaluator failed: {ra:?} / {rb:?}") }),
                    }
                }
            },
            Answer::Unknown => {
                why.push(format!("{}: unknown", p.which.name()));
                None
            }
            Answer::Timeout => {
                why.push(format!("{}: timeout", p.which.name()));
                None
            }
            Answer::Error(ref e) => {
                why.push(format!("{}: {e}", p.which.name()));
                None
            }
        };
        if ans != Answer::Timeout {
            p.pop();
        }
        if let Some(v) = v {
            return (v, m.text);
        }
    }
    (Verdict::Inconclusive(why.join("; ")), m.text)
}

pub fn baa_bv(x: &BigUint, w: u32) -> baa::BitVecValue {
    let s = x.to_str_radix(2);
    assert!(s.len() as u32 <= w);
    baa::BitVecValue::from_bit_str(&format!("{}{}", "0".repeat(w as usize - s.len()), s)).unwrap()
}

/// Convert a harness value into a baa value for the real evaluator.
pub fn to_baa(v: &Val) -> baa::Value {
    match v {
        Val::BV(x, w) => baa::Value::BitVec(baa_bv(x, *w)),
        Val::Arr { iw, dw, default, map } => {
            let d = baa_bv(default, *dw);
            let mut a = baa::ArrayValue::new_sparse(*iw, &d);
            for (k, x) in map {
                use baa::ArrayMutOps;
                a.store(&baa_bv(k, *iw), &baa_bv(x, *dw));
            }
            baa::Value::Array(a)
        }
    }
}

/// like `to_baa`, arrays in the dense representation
pub fn to_baa_dense(v: &Val) -> baa::Value {
    match to_baa(v) {
        baa::Value::Array(a) => {
            // baa 0.19.3's sparse -> dense conversion asserts for data widths above 64 bit; that is the
            // harness's own use of the dependency, not a patronus code path: fall back to sparse there
            let mut d = a.clone();
            match crate::panics::guarded(move || {
                d.make_dense();
                d
            }) {
                Ok(d) => baa::Value::Array(d),
                Err(_) => baa::Value::Array(a),
            }
        }
        other => other,
    }
}

/// Run the real evaluator (patronus::expr::eval_expr) under a model. Returns a printable result;
/// panics (e.g. the documented `todo!` for division) are caught.
pub fn real_eval(ctx: &Context, model: &Model, e: ExprRef) -> String {
    use patronus::expr::SymbolValueStore;
    let r = std::panic::catch_unwind(std::panic::AssertUnwindSafe(|| {
        let mut st = SymbolValueStore::default();
        for (s, _, v) in model {
            match to_baa(v) {
                baa::Value::BitVec(b) => {
 let _ = st.define_bv(*s, &b);
 }
                baa::Value::Array(a) => {
 let _ = st.define_array(*s, a);
 }
            }
        }
        let v = patronus::expr::eval_expr(ctx, &st, e);
        match v {
            baa::Value::BitVec(b) => {
                use baa::BitVecOps;
                format!("{}'b{}", b.width(), b.to_bit_str())
            }
            baa::Value::Array(a) => format!("{a:?}"),
        }
    }));
    r.unwrap_or_else(|_| "panic (unimplemented operator?)".to_string())
}
