//! RefBtor – an independent line-by-line interpreter of btor2 text producing RefSmt-style terms
//! (all values BitVec / Array) directly from the text; never calls the patronus reader.

use num_bigint::BigInt;
use std::collections::HashMap;

#[derive(Clone, Debug, PartialEq, Eq)]
pub enum S {
    BV(u32),
    Arr(u32, u32),
}

pub fn ssort(s: &S) -> String {
    match s {
        S::BV(w) => format!("(_ BitVec {w})"),
        S::Arr(i, d) => format!("(Array (_ BitVec {i}) (_ BitVec {d}))"),
    }
}

#[derive(Default)]
pub struct RefBtor {
    pub sorts: HashMap<i64, S>,
    pub nodes: HashMap<i64, (String, S)>,
    pub defs: String,
    pub inputs: Vec<(i64, S)>,
    pub states: Vec<(i64, S)>,
    pub init: HashMap<i64, i64>,
    pub next: HashMap<i64, i64>,
    pub bads: Vec<i64>,
    pub cons: Vec<i64>,
    pub outs: Vec<i64>,
    pub nonvalue_const_array: bool,
}

fn b2v(s: String) -> String {
    format!("(ite {s} #b1 #b0)")
}

impl RefBtor {
    /// value of a (possibly negated) line reference
    pub fn get(&self, tok: &str) -> Result<(String, S), String> {
        let id: i64 = tok.parse().map_err(|_| format!("bad id {tok}"))?;
        let (t, s) = self.nodes.get(&id.abs()).ok_or(format!("no node {id}"))?.clone();
        if id < 0 {
            if !matches!(s, S::BV(_)) {
                return Err("negated array reference".into());
            }
            Ok((format!("(bvnot {t})"), s))
        } else {
            Ok((t, s))
        }
    }
    fn sort_of(&self, tok: &str) -> Result<S, String> {
        let id: i64 = tok.parse().map_err(|_| format!("bad sort id {tok}"))?;
        self.sorts.get(&id).cloned().ok_or(format!("no sort {id}"))
    }

    pub fn parse(txt: &str) -> Result<RefBtor, String> {
        let mut rb = RefBtor::default();
        for line in txt.lines() {
            let line = line.split(';').next().unwrap();
            let t: Vec<&str> = line.split_whitespace().collect();
            if t.len() < 2 {
                continue;
            }
            let id: i64 = t[0].parse().map_err(|_| format!("bad line id in `{line}`"))?;
            let op = t[1];
            let mut def: Option<(String, S)> = None;
            let bvw = |s: &S| -> Result<u32, String> { if let S::BV(w) = s { Ok(*w) } else { Err(format!("expected bit-vector in `{line}`")) } };
            match op {
                "sort" => {
                    let s = if t[2] == "bitvec" {
                        S::BV(t[3].parse().map_err(|_| "bad width")?)
                    } else {
                        match (rb.sort_of(t[3])?, rb.sort_of(t[4])?) {
                            (S::BV(i), S::BV(d)) => S::Arr(i, d),
                            _ => return Err("nested array sort".into()),
                        }
                    };
                    rb.sorts.insert(id, s);
                }
                "input" | "state" => {
                    let s = rb.sort_of(t[2])?;
                    rb.nodes.insert(id, (format!("b!{id}"), s.clone()));
                    if op == "input" {
                        rb.inputs.push((id, s));
                    } else {
                        rb.states.push((id, s));
                    }
                }
                "init" => {
                    rb.init.insert(t[3].parse().map_err(|_| "bad id")?, t[4].parse().map_err(|_| "bad id")?);
                }
                "next" => {
                    rb.next.insert(t[3].parse().map_err(|_| "bad id")?, t[4].parse().map_err(|_| "bad id")?);
                }
                "bad" => rb.bads.push(t[2].parse().map_err(|_| "bad id")?),
                "constraint" => rb.cons.push(t[2].parse().map_err(|_| "bad id")?),
                "output" => rb.outs.push(t[2].parse().map_err(|_| "bad id")?),
                "zero" | "one" | "ones" | "const" | "constd" | "consth" => {
                    let s = rb.sort_of(t[2])?;
                    let w = bvw(&s)? as usize;
                    let bits: String = match op {
                        "zero" => "0".repeat(w),
                        "one" => format!("{}1", "0".repeat(w - 1)),
                        "ones" => "1".repeat(w),
                        "const" => format!("{:0>w$}", t[3], w = w),
                        "consth" => {
                            let mut b = String::new();
                            for c in t[3].chars() {
                                b.push_str(&format!("{:04b}", c.to_digit(16).ok_or("bad hex digit")?));
                            }
                            let b = if b.len() > w { b[b.len() - w..].to_string() } else { b };
                            format!("{:0>w$}", b, w = w)
                        }
                        _ => {
                            // constd: decimal, possibly negative (two's complement)
                            let v: BigInt = t[3].parse().map_err(|_| "bad decimal")?;
                            let m = BigInt::from(1) << w;
                            let v = ((v % &m) + &m) % &m;
                            format!("{:0>w$}", v.to_str_radix(2), w = w)
                        }
                    };
                    if bits.len() != w {
                        return Err(format!("literal does not fit in `{line}`"));
                    }
                    def = Some((format!("#b{bits}"), s));
                }
                _ => {
                    let s = rb.sort_of(t[2])?;
                    let a = rb.get(t[3])?;
                    let term = match op {
                        "not" => format!("(bvnot {})", a.0),
                        "neg" => format!("(bvneg {})", a.0),
                        "redor" => b2v(format!("(distinct {} #b{})", a.0, "0".repeat(bvw(&a.1)? as usize))),
                        "redand" => b2v(format!("(= {} #b{})", a.0, "1".repeat(bvw(&a.1)? as usize))),
                        "redxor" => {
                            let w = bvw(&a.1)?;
                            let mut tt = format!("((_ extract 0 0) {})", a.0);
                            for i in 1..w {
                                tt = format!("(bvxor {tt} ((_ extract {i} {i}) {}))", a.0);
                            }
                            tt
                        }
                        "slice" => format!("((_ extract {} {}) {})", t[4], t[5], a.0),
                        "uext" => format!("((_ zero_extend {}) {})", t[4], a.0),
                        "sext" => format!("((_ sign_extend {}) {})", t[4], a.0),
                        _ => {
                            let b = rb.get(t[4])?;
                            let bin = |o: &str| format!("({o} {} {})", a.0, b.0);
                            match op {
                                "iff" | "eq" => b2v(bin("=")),
                                "neq" => b2v(bin("distinct")),
                                "implies" => format!("(bvor (bvnot {}) {})", a.0, b.0),
                                "sgt" => b2v(bin("bvsgt")),
                                "ugt" => b2v(bin("bvugt")),
                                "sgte" => b2v(bin("bvsge")),
                                "ugte" => b2v(bin("bvuge")),
                                "slt" => b2v(bin("bvslt")),
                                "ult" => b2v(bin("bvult")),
                                "slte" => b2v(bin("bvsle")),
                                "ulte" => b2v(bin("bvule")),
                                "and" => bin("bvand"),
                                "or" => bin("bvor"),
                                "xor" => bin("bvxor"),
                                "nand" => bin("bvnand"),
                                "nor" => bin("bvnor"),
                                "xnor" => bin("bvxnor"),
                                "sll" => bin("bvshl"),
                                "srl" => bin("bvlshr"),
                                "sra" => bin("bvashr"),
                                "add" => bin("bvadd"),
                                "sub" => bin("bvsub"),
                                "mul" => bin("bvmul"),
                                "udiv" => bin("bvudiv"),
                                "sdiv" => bin("bvsdiv"),
                                "urem" => bin("bvurem"),
                                "srem" => bin("bvsrem"),
                                "smod" => bin("bvsmod"),
                                "concat" => bin("concat"),
                                "read" => bin("select"),
                                "ite" => {
                                    let c = rb.get(t[5])?;
                                    format!("(ite (= {} #b1) {} {})", a.0, b.0, c.0)
                                }
                                "write" => {
                                    let c = rb.get(t[5])?;
                                    format!("(store {} {} {})", a.0, b.0, c.0)
                                }
                                other => return Err(format!("unsupported op {other}")),
                            }
                        }
                    };
                    def = Some((term, s));
                }
            }
            if let Some((term, s)) = def {
                let n = format!("b!{id}");
                rb.defs.push_str(&format!("(define-fun {n} () {} {term})\n", ssort(&s)));
                rb.nodes.insert(id, (n, s));
            }
        }
        Ok(rb)
    }

    /// states that the patronus reader is documented to turn into inputs (neither init nor next)
    pub fn demoted(&self) -> Vec<&(i64, S)> {
        self.states.iter().filter(|(id, _)| !self.init.contains_key(id) && !self.next.contains_key(id)).collect()
    }
    pub fn kept(&self) -> Vec<&(i64, S)> {
        self.states.iter().filter(|(id, _)| self.init.contains_key(id) || self.next.contains_key(id)).collect()
    }
}
