//! Validation of model-checker witnesses against RefUnroll (C03; also used by C02 and C10).

use crate::bigeval::{self, Val};
use crate::refsmt::Ty;
use crate::refunroll::RefUnroll;
use crate::solver::{Answer, Proc};
use baa::{ArrayOps, BitVecOps};
use num_bigint::BigUint;
use patronus::expr::Context;
use patronus::mc::{InitValue, Witness};
use patronus::system::TransitionSystem;

pub fn bv_to_big(v: &baa::BitVecValue) -> BigUint {
    BigUint::parse_bytes(v.to_bit_str().as_bytes(), 2).unwrap()
}

#[derive(Debug, Clone)]
pub struct WitnessProblem {
    pub kind: String,
    pub detail: String,
}

pub struct WitnessCheck {
    pub problems: Vec<WitnessProblem>,
    pub inconclusive: Vec<String>,
    pub queries: u64,
    pub q1: String,
}

pub fn show_witness(w: &Witness) -> serde_json::Value {
    let init: Vec<String> = w
        .init
        .iter()
        .map(|i| match i {
            InitValue::BitVec(v) => format!("{}'b{}", v.width(), v.to_bit_str()),
            InitValue::Array(a, idx) => format!("array {a:?} indices {}", idx.len()),
            InitValue::None => "none".into(),
        })
        .collect();
    let inputs: Vec<Vec<String>> = w
        .inputs
        .iter()
        .map(|step| {
            step.iter()
                .map(|v| match v {
                    Some(baa::Value::BitVec(b)) => format!("{}'b{}", b.width(), b.to_bit_str()),
                    Some(baa::Value::Array(a)) => format!("{a:?}"),
                    None => "none".into(),
                })
                .collect()
        })
        .collect();
    serde_json::json!({"failed_safety": w.failed_safety, "init": init, "init_names": w.init_names, "inputs": inputs, "input_names": w.input_names})
}

/// Q1 (sat) / Q2 (unsat) of DESIGN.md C03 plus the structural clauses.
pub fn validate(ctx: &Context, sys: &TransitionSystem, w: &Witness, p: &mut Proc) -> WitnessCheck {
    let mut problems = vec![];
    let mut inconclusive = vec![];
    let mut queries = 0;
    let bad = |k: &str, d: String, problems: &mut Vec<WitnessProblem>| problems.push(WitnessProblem { kind: k.into(), detail: d });
    // ---- structural clauses
    if w.init.len() != sys.states.len() {
        bad("structure:init-length", format!("{} init values for {} states", w.init.len(), sys.states.len()), &mut problems);
    }
    if w.inputs.is_empty() {
        bad("structure:no-steps", "witness has no input frames".into(), &mut problems);
    }
    for (k, f) in w.inputs.iter().enumerate() {
        if f.len() != sys.inputs.len() {
            bad("structure:inputs-per-step", format!("step {k}: {} input values for {} inputs", f.len(), sys.inputs.len()), &mut problems);
        } else if f.iter().any(|v| v.is_none()) {
            bad("structure:input-missing", format!("step {k}: an input has no value"), &mut problems);
        }
    }
    let snames: Vec<Option<String>> = sys.states.iter().map(|s| ctx.get_symbol_name(s.symbol).map(|x| x.to_string())).collect();
    let inames: Vec<Option<String>> = sys.inputs.iter().map(|s| ctx.get_symbol_name(*s).map(|x| x.to_string())).collect();
    if w.init_names != snames {
        bad("structure:state-names", format!("{:?} vs system {:?}", w.init_names, snames), &mut problems);
    }
    if w.input_names != inames {
        bad("structure:input-names", format!("{:?} vs system {:?}", w.input_names, inames), &mut problems);
    }
    if w.failed_safety.is_empty() {
        bad("no-failed-property", "witness lists no failed bad state".into(), &mut problems);
    }
    if w.failed_safety.iter().any(|i| *i as usize >= sys.bad_states.len()) {
        bad("structure:failed-index", format!("failed {:?} with {} bad states", w.failed_safety, sys.bad_states.len()), &mut problems);
    }
    if !problems.is_empty() {
        return WitnessCheck { problems, inconclusive, queries, q1: String::new() };
    }
    // ---- semantic clauses
    let Ok(mut ru) = RefUnroll::new(ctx, sys, "W!") else {
        inconclusive.push("RefUnroll failed".into());
        return WitnessCheck { problems, inconclusive, queries, q1: String::new() };
    };
    let last = w.inputs.len() - 1;
    let mut text = String::new();
    for _ in 0..=last {
        match ru.step() {
            Ok(t) => text.push_str(&t),
            Err(e) => {
                inconclusive.push(format!("RefUnroll failed: {e:?}"));
                return WitnessCheck { problems, inconclusive, queries, q1: String::new() };
            }
        }
    }
    // pins
    let mut pins = String::new();
    for (i, iv) in w.init.iter().enumerate() {
        match (iv, ru.state_tys[i]) {
            (InitValue::BitVec(v), Ty::BV(wd)) => {
                if v.width() != wd {
                    bad("pin:state-width", format!("state {i}: value of width {} for a {wd}-bit state", v.width()), &mut problems);
                    continue;
                }
                pins.push_str(&format!("(assert (= {} {}))\n", ru.st(i, 0), bigeval::bv_smt(&bv_to_big(v), wd)));
            }
            (InitValue::Array(a, indices), Ty::Arr(iw, dw)) => {
                if a.index_width() != iw || a.data_width() != dw {
                    bad("pin:array-type", format!("state {i}: array value has the wrong type"), &mut problems);
                    continue;
                }
                for idx in indices {
                    let d = a.select(idx);
                    pins.push_str(&format!("(assert (= (select {} {}) {}))\n", ru.st(i, 0), bigeval::bv_smt(&bv_to_big(idx), iw), bigeval::bv_smt(&bv_to_big(&d), dw)));
                }
            }
            (InitValue::None, _) => bad("structure:state-missing", format!("state {i} has no value"), &mut problems),
            _ => bad("pin:kind", format!("state {i}: bit-vector/array kind mismatch"), &mut problems),
        }
    }
    for (k, f) in w.inputs.iter().enumerate() {
        for (j, v) in f.iter().enumerate() {
            match (v, ru.input_tys[j]) {
                (Some(baa::Value::BitVec(b)), Ty::BV(wd)) if b.width() == wd => {
                    pins.push_str(&format!("(assert (= {} {}))\n", ru.inp(j, k), bigeval::bv_smt(&bv_to_big(b), wd)));
                }
                (Some(baa::Value::Array(a)), Ty::Arr(iw, dw)) if a.index_width() == iw && a.data_width() == dw && iw <= 6 => {
                    for ix in 0..(1u64 << iw) {
                        let idx = baa::BitVecValue::from_u64(ix, iw);
                        let d = a.select(&idx);
                        pins.push_str(&format!("(assert (= (select {} {}) {}))\n", ru.inp(j, k), bigeval::bv_smt(&BigUint::from(ix), iw), bigeval::bv_smt(&bv_to_big(&d), dw)));
                    }
                }
                _ => bad("pin:input", format!("step {k} input {j}: value has the wrong type"), &mut problems),
            }
        }
    }
    if !problems.is_empty() {
        return WitnessCheck { problems, inconclusive, queries, q1: String::new() };
    }
    let cons: Vec<String> = (0..=last).map(|k| ru.constraints_hold(k)).collect();
    let failed: std::collections::HashSet<usize> = w.failed_safety.iter().map(|i| *i as usize).collect();
    let matches: Vec<String> = ru.bads[last].iter().enumerate().map(|(i, b)| format!("(= {b} {})", if failed.contains(&i) { "#b1" } else { "#b0" })).collect();
    let m = format!("(and true {} {})", cons.join(" "), matches.join(" "));
    // Q1
    let q1 = format!("{text}{pins}(assert {m})\n");
    queries += 1;
    match p.check_once(&q1) {
        Answer::Sat => {}
        Answer::Unsat => {
            // which clause fails? (diagnosis only)
            let mut why = vec![];
            for (k, c) in cons.iter().enumerate() {
                queries += 1;
                if p.check_once(&format!("{text}{pins}(assert {c})\n")) == Answer::Unsat {
                    why.push(format!("no execution with these initial values and inputs satisfies the init expressions and the constraints up to step {k}"));
                    break;
                }
            }
            let mut kind = "not-an-execution-hitting-the-listed-bad-states".to_string();
            if why.is_empty() {
                // which bad states are forced to hold / not to hold under the pins?
                let call = cons.join(" ");
                let mut omitted = vec![];
                let mut wrongly_listed = vec![];
                for (i, b) in ru.bads[last].iter().enumerate() {
                    queries += 2;
                    let can_hold = p.check_once(&format!("{text}{pins}(assert (and true {call} (= {b} #b1)))\n")) == Answer::Sat;
                    let can_fail = p.check_once(&format!("{text}{pins}(assert (and true {call} (= {b} #b0)))\n")) == Answer::Sat;
                    if can_hold && !can_fail && !failed.contains(&i) {
                        omitted.push(i);
                    }
                    if can_fail && !can_hold && failed.contains(&i) {
                        wrongly_listed.push(i);
                    }
                }
                let has_array_eq = |i: usize| -> bool {
                    let mut st = vec![sys.bad_states[i]];
                    let mut seen = std::collections::HashSet::new();
                    while let Some(e) = st.pop() {
                        if seen.insert(e) {
                            let n = crate::refsmt::decompose(&ctx[e]);
                            if n.op == crate::refsmt::Op::ArrayEqual {
                                return true;
                            }
                            st.extend(n.kids);
                        }
                    }
                    false
                };
                if wrongly_listed.is_empty() && !omitted.is_empty() && omitted.iter().all(|i| has_array_eq(*i)) {
                    kind = "failed-set-omits-bad-state-with-array-equality".to_string();
                } else if wrongly_listed.is_empty() && !omitted.is_empty() {
                    kind = "failed-set-omits-a-bad-state-that-holds".to_string();
                } else if !wrongly_listed.is_empty() {
                    kind = "failed-set-lists-a-bad-state-that-does-not-hold".to_string();
                }
                why.push(format!("the listed failed bad states {:?} are not exactly the bad states that hold at step {last}: omitted {omitted:?}, wrongly listed {wrongly_listed:?}", w.failed_safety));
            }
            bad(&kind, why.join("; "), &mut problems);
        }
        other => inconclusive.push(format!("Q1: {}", other.short())),
    }
    // Q2: only when the pins determine the execution
    let determined = sys.states.iter().all(|s| s.next.is_some());
    if determined && problems.is_empty() {
        queries += 1;
        match p.check_once(&format!("{text}{pins}(assert (not {m}))\n")) {
            Answer::Unsat => {}
            Answer::Sat => bad("pins-admit-an-execution-without-the-listed-bad-states", "with the witness' values pinned there is an execution (differing only in array cells the witness does not list) that violates a constraint or does not hit exactly the listed bad states".into(), &mut problems),
            other => inconclusive.push(format!("Q2: {}", other.short())),
        }
    }
    WitnessCheck { problems, inconclusive, queries, q1 }
}

/// Replay (ii): run the witness through the real sim::Interpreter (bit-vector systems only) and
/// report which bad states hold at the last step.
pub fn interpreter_replay(ctx: &Context, sys: &TransitionSystem, w: &Witness) -> String {
    use patronus::sim::{InitKind, Interpreter, Simulator};
    let r = crate::panics::guarded(|| {
        if w.init.iter().any(|i| !matches!(i, InitValue::BitVec(_))) || sys.inputs.iter().any(|i| ctx[*i].get_symbol_name(ctx).is_none()) {
            return "skipped (array state)".to_string();
        }
        let mut sim = Interpreter::new(ctx, sys);
        sim.init(InitKind::Zero);
        for (s, v) in sys.states.iter().zip(w.init.iter()) {
            if let InitValue::BitVec(b) = v {
                sim.set(s.symbol, b);
            }
        }
        let mut bads = vec![];
        for (k, f) in w.inputs.iter().enumerate() {
            for (inp, v) in sys.inputs.iter().zip(f.iter()) {
                if let Some(baa::Value::BitVec(b)) = v {
                    sim.set(*inp, b);
                } else {
                    return "skipped (array input)".to_string();
                }
            }
            if k + 1 == w.inputs.len() {
                for b in sys.bad_states.iter() {
                    bads.push(match sim.get(*b) {
                        baa::Value::BitVec(v) => !v.is_zero(),
                        _ => false,
                    });
                }
            } else {
                sim.step();
            }
        }
        format!("bad states at last step per Interpreter: {bads:?}")
    });
    r.unwrap_or_else(|(l, m)| format!("Interpreter panicked at {l}: {m}"))
}

pub fn val_of_init(iv: &InitValue) -> Option<Val> {
    match iv {
        InitValue::BitVec(v) => Some(Val::BV(bv_to_big(v), v.width())),
        _ => None,
    }
}
