#!/usr/bin/env python3
"""Regenerates MANIFEST.json from the table below (keeps it valid at all times)."""
import json, subprocess
NA_TECH = {
 "C07": "simulator state lives in an FxHashMap-indexed store over a cloned Context; CBMC cannot execute hashbrown/indexmap here (no result in 15 min for one insert) and with concrete values no universally quantified variable is left for a solver (DESIGN.md section 5)",
 "C12": "reference identity over all construction histories = behaviour of indexmap::IndexSet + baa::ValueInterner under arbitrary insert sequences; symbolic hashing into hashbrown is out of CBMC's reach and there is no term meaning for an SMT solver to compare (DESIGN.md section 5)",
 "C13": "termination / idempotence as references / cache transparency are control-flow properties of the rewrite driver over the hash-consed heap; no value dimension to quantify over and the driver cannot be executed symbolically (needs Context) (DESIGN.md section 5)",
 "C15": "subject is std::process::Child / pipe handling of SmtLibSolverCtx; Kani has no model of processes or pipes and fault positions x fault kinds over a live process is fault injection, not solver reasoning (DESIGN.md section 5)",
 "C16": "witness print/parse is format!/String/parse code; the Kani probe on one 2-bit state was still in core::fmt after 13 min at 10.7 GB, and equality of Witness values is structural (no term meaning for engine S) (DESIGN.md section 5)",
 "C18": "arbitrary input text needs the parser executed on a symbolic buffer; parse.rs is built on FxHashMap, lazy_static sets, SmallVec, format! and codespan output, all outside CBMC's reach here (DESIGN.md section 5)",
}
PENDING = "check not completed yet in this session (design in DESIGN.md section 4); not claimed until it is finished and validated"
CHECKS = {
 "C01": dict(
   technique="SMT translation validation: real simplifier output vs independent RefSmt encoding of the input, equivalence miter decided by z3 5.1 (cvc5 1.0 / z3 4.8.12 as further opinions) for all symbol values; expression shapes enumerated",
   category="translation_validation",
   text="For every enumerated expression shape (depth<=2 exhaustive over all 35 operators x width classes x literal classes, plus seeded deeper DAGs) the real simplify_single_expression / Simplifier<sparse,dense> / simplify_expressions is run and the solver proves input == output for ALL assignments of all symbols and array contents (unsat miter), plus independent deep type check. What is bounded is the set of shapes, not the values.",
   design_ref="DESIGN.md section 4 C01",
   note="Trusted: RefSmt (harness/src/refsmt.rs, validated by canaries + big-integer replay of every sat model), z3/cvc5 soundness on QF_ABV(+UF). Stage-1 abstraction of mul/div/rem as uninterpreted functions is only used in the sound direction (unsat). Panics of the simplifier are reported as violations (two dependency panics are recorded known findings)."),
 "C05": dict(
   technique="SMT translation validation of the SMT-LIB writer: text written by the real serialize_cmd is sort-checked by the z3 5.1 and cvc5 1.0 front ends and proved equivalent to an independent RefSmt encoding for all assignments",
   category="translation_validation",
   text="For every enumerated expression shape (every consumer operator x argument position x producer x 1-bit/wide, arrays with Bool index and/or data, 12 symbol-name classes) the real DeclareConst/DefineConst/Assert/CheckSatAssuming/GetValue text is fed to two independent solver front ends (any (error = ill-sorted) and the solver proves written term == RefSmt(expression) for ALL assignments, the Bool<->BitVec link being part of the query. Every fifth serialisation on a thread is preceded by one into a writer that fails part-way (the writer must not carry state from an aborted term).",
   design_ref="DESIGN.md section 4 C05",
   note="Trusted: RefSmt, the sort checkers of z3/cvc5; cvc5 is skipped for terms with a non-literal value under the non-standard `as const` and sampled 1-in-4 in the quick tier. Names containing | or \\ and reserved words are outside the claim."),
 "C11": dict(
   technique="SMT translation validation of system transformations: every init/next/output/bad/constraint function before vs after the real pass, equivalence miter per function decided by z3 5.1 / cvc5 / z3 4.8.12 for all valuations; substitution anon:=0 for anonymous-input removal",
   category="translation_validation",
   text="Generated transition systems (12 topology patterns, arrays, shared sub-expressions, named nodes, anonymous inputs) and the shipped btor2 designs are run through the real simplify_expressions and replace_anonymous_inputs_with_zero; interface (inputs, states, output names, order) is compared structurally and every function pair is proved equivalent for ALL valuations of inputs and states, hence all executions by induction on steps.",
   design_ref="DESIGN.md section 4 C11",
   note="Trusted: RefSmt, solvers. Undecided roots of big shipped designs are listed and not counted. Systems outside the grammar's size are outside the claim."),
 "C14": dict(
   technique="SMT translation validation of the SMT-LIB reader: writer output (and let-introduced variants) read back by the real parse_expr/parse_command and proved equivalent to the original by solver miter; model values as printed by live z3 4.8.12 / z3 5.1 / cvc5 (incl. --dag-thresh=1 lets) read back and proved equal to the value the solver holds",
   category="translation_validation",
   text="Round trip for every C05 shape (expression, DefineConst/DeclareConst/Assert/CheckSatAssuming/GetValue commands, let-variants with binders that shadow declared symbols): same type and solver-proved equivalence for ALL assignments. Value forms are produced by the installed solvers themselves for 11 sorts x boundary values; every response, its token-boundary truncations and single-atom deletions are read by the real reader and must give the exact value or an error (documented todo!() panics counted, accepted). Command streams: whole scripts with push/pop and re-declaration of names under other sorts are written by the real writer and read back through the real read_command with one symbol table. Reader semantics: for every operator spelling found in smt/serialize.rs a term in that spelling is read and the solver decides RefSmt(read(T)) = T with the solver's own reading of T as reference (independent of the expression builders).",
   design_ref="DESIGN.md section 4 C14",
   note="Trusted: RefSmt, solvers. parse_get_value_response is not public; value parsing is reached through public parse_expr on the value text and through the live SmtLibSolverCtx::get_value. z3 4.8.12's (lambda ...) form for Bool-valued arrays and quoted let-binder names are outside the property's list of forms."),
 "C04": dict(
   technique="SMT validation of the emitted script: the SMT-LIB text recorded from the real UnrollSmtEncoding (written by the real serialize_cmd) is parsed by the z3 5.1 and cvc5 front ends (well-formedness) and proved, in one query per (system, depth, entry point), to give every state/constraint/bad symbol at every step the value of an independent reference unrolling, for all executions",
   category="translation_validation",
   text="Generated systems (13 topology patterns incl. every init/next/bad sharing pattern, constant states, next-less states, array state) are unrolled by the real encoder as bmc does (init_at(0) + k unrolls) and as pdr does (init_at(1) + 1..2 unrolls). Any solver (error on the recorded script is a well-formedness violation; faithfulness is one unsat query S /\\ RefUnroll /\\ link => all signals equal at all steps, which quantifies over ALL concrete executions (all inputs at all steps, all free states). Declared-vs-defined status of every signal is checked against the reference so that over-constraining free signals is also caught.",
   design_ref="DESIGN.md section 4 C04",
   note="Trusted: RefUnroll (btor2 semantics), RefSmt, solver front ends. cvc5 is skipped for scripts containing the non-standard `as const`. The two ill-formedness defects of the pinned tree were repaired (fix: 08177c3)."),
 "C09": dict(
   technique="SMT translation validation of the btor2 writer+reader: real serialize_to_str then parse_str; interface compared positionally by type, every init/next/output/bad/constraint function proved equivalent to the original by solver miter under positional symbol linking; name clause by a further cycle",
   category="translation_validation",
   text="Generated systems (13 patterns incl. labels aliasing states, array states, constant states, anonymous inputs, literal shapes) and all 116 shipped btor2 designs: written text must be read back, same number/types of inputs/states/outputs/bads/constraints, each function equivalent for ALL valuations (re-read symbols are linked to the originals by position in the query). Explicit distinct names of the re-read system must survive a further write/read cycle (string comparison, side condition).",
   design_ref="DESIGN.md section 4 C09",
   note="Trusted: RefSmt, solvers. States with neither init nor next (turned into inputs by the reader by design) and systems the writer rejects are outside the claim. One genuine name-drift defect is a recorded known finding."),
 "C02": dict(
   technique="solver-decided reference reachability vs the real bmc on live solvers: z3 5.1 decides, on an independent reference unrolling, whether a bad state is reachable at each depth <= k for ALL executions; the real bmc (real text protocol to the installed z3 4.8.12 and cvc5 1.0) must return exactly that verdict and first failing depth under 4 capability profiles x 2 modes x simplify on/off",
   category="translation_validation",
   text="Per generated system and bound the oracle query quantifies over all initial values, all input sequences and all values of next-less states (all executions of length <= k). The real bmc is run 16 times per (system, bound) through a delegating SolverContext that selects check-sat-assuming vs push/pop; any verdict or first-failing-depth mismatch, Err, panic or hang is a violation. Besides the generated systems (all operators incl. division), 44 operator-probe systems per width make the verdict hinge on the complete function table of one operator application (all operand pairs, combinational and through a register; table from the harness' big-integer evaluator, cross-checked against the reference unrolling). The script's meaning is decided separately in C04.",
   design_ref="DESIGN.md section 4 C02",
   note="Trusted: RefUnroll, z3 5.1 (oracle), the live solvers' answers. cvc5 profiles are skipped for systems with a non-literal constant array (cvc5 1.0 rejects the non-standard `as const` there). Bounds <= 12, grammar-sized systems."),
 "C03": dict(
   technique="SMT validation of witnesses: every witness returned by the real bmc / pdr on live z3 and cvc5 (several solver seeds through PATH shims) is pinned into an independent reference unrolling; Q1 (pins admit an execution satisfying init, all constraints, exactly the listed bad states) must be sat and Q2 (pins admit any other outcome) must be unsat",
   category="translation_validation",
   text="Witnesses come from the real get_witness/get_smt_value/get_value path under 4 profiles x 2 modes (+ pdr's BMC fall-back), on failing and on safe systems (a witness on a safe system can only be wrong). The solver decides Q1/Q2 over all unpinned values (array cells the witness does not list); structural clauses (lengths, names, order, a value for every input at every step) are checked natively. The quantifier 'every model the solver may return' is enumerated: 2 solvers x 2-3 seeds. The operator probes of C02 are included (a failing safe probe yields a witness that cannot be an execution).",
   design_ref="DESIGN.md section 4 C03",
   note="Trusted: RefUnroll, z3 5.1. For states that keep an init but have no next only Q1 is required (the witness format has no place for their later values)."),
 "C10": dict(
   technique="solver-decided unbounded reference reachability vs the real pdr on live solvers: z3 5.1 decides reachability of a bad state on an independent reference unrolling for every depth up to the completeness threshold 2^bits-1 (all executions of a finite system); the real pdr (z3 4.8.12 / cvc5 1.0, generalisation on/off, check-sat-assuming vs push/pop, full-core widening, solver seeds) must answer Success/Fail accordingly, definitely, with a witness that passes the C03 queries",
   category="translation_validation",
   text="Per generated bit-vector system (<= 5 state bits quick, <= 7 thorough) the oracle quantifies over all executions of every length up to the completeness threshold. Success with a reachable bad state or Fail without one is a soundness violation; Unknown/Err/panic/no answer that reproduces with a 4x budget violates the definite-answer clause; every Fail witness is validated by Q1/Q2 against the reference. Combinational operator probes (one 1-bit state, complete function table of one operator application) are included.",
   design_ref="DESIGN.md section 4 C10",
   note="Trusted: RefUnroll, z3 5.1 (oracle). Solver answer choices are enumerated (2 solvers, seeds, minimal vs full cores), not symbolic. cvc5 configurations are skipped for systems containing constant arrays (cvc5 1.0 limitations). Array states are outside (todo!() in pdr)."),
 "C08": dict(
   technique="SMT translation validation of the btor2 reader: every output/bad/constraint/init/next of the system returned by the real parse_str is proved equal, for all input/state valuations, to the value an independent line-by-line btor2 interpreter (RefBtor, working on the text) assigns to the referenced line",
   category="translation_validation",
   text="One generated file per operator x sort combination x operand kind (input/state/constant in 6 constant forms) x negation placement x sort-declaration order, plus seeded multi-line files and the shipped designs; inputs/states are linked by declaration order and their sorts compared. Rejection clause: derived ill-sorted variants (declared sort changed, operand of another width, operands of another common width) must not be accepted.",
   design_ref="DESIGN.md section 4 C08",
   note="Trusted: RefBtor (harness/src/refbtor.rs), RefSmt, solvers. Crashes on ill-sorted input are counted as observations (C18 is not claimed). Documented-unsupported operators are outside."),
 "C19": dict(
   technique="SMT validation of rewrite-rule instances: for every width/sign assignment satisfying the real side condition, both patterns are instantiated, lowered by the real from_arith and proved equal for all operand values; from_arith itself is proved equal to an independent reading of the Arith term; to_arith/from_arith round trip proved equivalent; the shipped rule set as egg applies it (create_egg_rewrites: conditions evaluated against the e-graph, WidthConstantFold) is run to saturation on generated expressions and every e-class member is lowered by from_arith and proved equal to the class reference for all operand values",
   category="translation_validation",
   text="Saturation part: 800 (8000 thorough) expressions on which the rules fire, ONE rule set re-used across all e-graphs of a worker, 4 iterations / 4000 nodes; every bin-op e-node over the smallest child terms must be solver-equal to the original expression (root class) or to the class's first member. All rules of create_rewrites(), every width parameter 1..=4 (5 thorough) exhaustively, both signs, plus sampled larger widths; per instance three unsat queries (lhs==rhs, from_arith(lhs)==meaning(lhs), from_arith(rhs)==meaning(rhs)). Conversion: seeded expressions of the convertible fragment, from_arith(to_arith(e)) has the same width and is solver-proved equivalent.",
   design_ref="DESIGN.md section 4 C19",
   note="Trusted: RefSmt, solvers, the harness's reading of the Arith language (extend by sign to max width, apply, truncate). Instances no solver decides are listed, not counted."),
 "C20": dict(
   technique="SMT validation of value summaries: after every operation of a generated history the entries (guard BDD exported as a Boolean expression, value) are read through the cfg(patronus_verif) accessors; the solver proves that the guards are a partition and that, under every valuation of the guard terminals and value symbols, the selected entry's value equals the operation applied to the arguments' denotations; expr_to_guard is proved equivalent to its expression",
   category="translation_validation",
   text="Histories: all single operations over 16 Boolean and 5 value leaves, about 400 guard-conversion leaves (every Boolean operator / 1-bit comparison / equality / ite with leaf, negated and compound operands in either position; imported, used as ite condition, combined), structured depth-2 combinations (ite/import summaries sharing, not sharing and complementing conditions) and seeded deeper trees of new/apply_bin_op/apply_ite/coalesce/import_into_guard. Three kinds of unsat obligations per node: partition, denotation, guard conversion. Terminals include expressions with non-Boolean operands, linked to their meaning in the query.",
   design_ref="DESIGN.md section 4 C20",
   note="Trusted: BDD::to_expr of the boolean_expression crate (the hook only reads), RefSmt, solver. Three genuine defects of the pinned tree were repaired (fix: ebac2c2, 80a1d6c, 8b04705)."),
 "C17": dict(
   technique="self-composition decided by SMT: two copies of an independent reference unrolling that agree on the cone returned by the real analysis must agree on the root - one query for the combinational and init variants, an inductive base + step pair for the full variant (all pairs of executions of any length); sat inductive answers are confirmed by a bounded two-copy unrolling from the initial states",
   category="translation_validation",
   text="For every state symbol, init, next, bad, constraint and output expression of generated systems (incl. chains of states linked only through init / only through next / init + hold) the real cone_of_influence{,_init,_comb} is computed and sufficiency is proved by unsat two-copy queries over all valuations/executions. Containment in inputs+states and syntactic tightness are checked against the harness's own dependency-graph reachability (side condition, not a solver query).",
   design_ref="DESIGN.md section 4 C17",
   note="Trusted: RefUnroll, RefSmt, z3 5.1. An inductive-step counterexample that no pair of real executions reproduces within 2*|states|+2 steps is counted inconclusive, not reported."),
 "C06": dict(
   technique="Kani/CBMC bounded model checking of the baa kernels that eval.rs calls (all operand values at concrete widths, unwinding assertions on) + SMT check of a syn-extracted encoding of the eval dispatch arms against RefSmt (all symbol values) + SMT check that every operator builder (Context methods and Builder closure API) returns a node meaning what the operator application means (all symbol values) + validation of the real eval_expr on enumerated boundary vectors against a big-integer reference",
   category="other",
   text="K: one #[kani::proof] per (kernel, width) with both operands kani::any(), compared with a u128/i128 reference and required to be is_equal to the canonically constructed value: widths 8/64 (+1/63 thorough) for all operators incl. symbolic shift amounts and 64-bit mul, 65/128 for comparisons (quick: 65) and and/or/xor/not/add/sub/negate/slice/extend/concat (thorough). D: the 21 un_op/bin_op arms of eval_expr_internal, the pop order of bin_op and the child order of foreach.rs are re-extracted from the current source on every run and each arm is proved equal to the SMT-LIB operator for all values at widths 1..129. V: about 10^6 evaluations of the real evaluator (four symbol stores incl. overwrite through update*, short-circuit values for children and grandchildren incl. supplied array values for store/ite/constant-array nodes, canonical-representation clause) on all literal classes incl. shift amounts >= width and >= 2^32 - enumeration, not a universally quantified verdict, and said so in the evidence.",
   design_ref="DESIGN.md section 4 C06",
   note="Trusted: CBMC/Kani soundness within unwinding bounds, RefSmt, the big-integer evaluator. Outside: division/remainder (documented unimplemented), mul above 64 bit, two-word shifts in CBMC (out of memory), array kernels (std HashMap), the evaluator's work-list loop (covered by V only). Two dependency defects are recorded known findings (shl dirty bits, non-extensional array equality)."),
}
ALL = [f"C{i:02d}" for i in range(1, 21)]
m = {
 "version": 1,
 "setup_cmd": "./check --setup",
 "hooks": {
   "guard": "patronus_verif",
   "enable": "RUSTFLAGS=\"--cfg patronus_verif\" (set by ./check for the harness build; cargo passes it to the patronus crates built as path dependencies)",
   "baseline_off_cmd": "cd /repo && cargo nextest run --workspace --no-fail-fast --offline --test-threads 8 || cargo test --workspace --no-fail-fast --offline",
   "source_commits": ["45229b0"],
   "add_only": True,
 },
 "engines": [
   {"name": "engine-K", "path": "kani/", "serves_properties": ["C06"],
    "kind_free_text": "Kani 0.68 / CBMC 6.11 proof harnesses (generated by kani/gen.py, run by kani/kani_runner.py through ./check C06) over the baa bit-vector kernels that patronus' evaluator calls; failing harnesses are replayed natively before being reported"},
   {"name": "engine-S", "path": "harness/", "serves_properties": sorted(CHECKS.keys()),
    "kind_free_text": "real patronus code (path dependency on /repo, rebuilt every run) produces terms; an independent reference encoding (RefSmt/RefUnroll/RefBtor) + SMT solver (z3 5.1 primary, cvc5 1.0 and z3 4.8.12 second opinions) decides the property for all values; shapes are an enumerated bound; every sat model is replayed through an independent big-integer evaluator and the real evaluator before a VIOLATION is printed"},
 ],
 "checks": [],
 "not_applicable": [],
 "notes": "Family: solver-based checking of the real code. See DESIGN.md. known_findings.json lists recorded genuine defects and the fix: commits made in /repo.",
}
for pid in ALL:
    if pid in CHECKS:
        c = CHECKS[pid]
        m["checks"].append({
            "property_id": pid,
            "quick_cmd": f"./check {pid} --tier quick",
            "thorough_cmd": f"./check {pid} --tier thorough",
            "evidence_file": f"evidence/{pid}.json",
            "replay_cmd_template": f"./check {pid} --replay {{path}}",
            "engine": "engine-S",
            "level_claimed": {"category": c["category"], "text": c["text"], "design_ref": c["design_ref"]},
            "level_note": c["note"],
            "technique": c["technique"],
        })
    else:
        m["not_applicable"].append({"property_id": pid, "reason": NA_TECH.get(pid, PENDING)})
json.dump(m, open("MANIFEST.json", "w"), indent=1)
print("claimed:", sorted(CHECKS), "n/a:", [x["property_id"] for x in m["not_applicable"]])
